#!/bin/sh
# usage: tools_try_seed.sh <patch> <prop> [govc flags]: applies a change to a scratch worktree of /repo (with the current
# contract mirror), runs the quick check of <prop> against it, removes the worktree. /repo itself is not touched.
set -u
WT=/tmp/verif_trywt.$$
git -C /repo worktree add -q --detach $WT HEAD || exit 9
(cd /verif/contracts && find . -name zz_verif_contracts.go | while read f; do mkdir -p "$WT/$(dirname "$f")"; cp "$f" "$WT/$f"; done)
git -C $WT apply "$1" || { echo "patch does not apply"; git -C /repo worktree remove --force $WT; exit 9; }
P=$2; shift 2
GOVC_OUT=/tmp/verif_tryout.$$ GOVC_REPO=$WT /verif/bin/govc check "$P" -repo $WT -no-evidence "$@" 2>&1 | grep -v "^  ok\|^  func\|^note:" | cut -c1-${CUT:-330} | tail -${TAILN:-8}
git -C /repo worktree remove --force $WT; rm -rf /tmp/verif_tryout.$$ $WT
