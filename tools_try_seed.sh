#!/bin/sh
# usage: tools_try_seed.sh <patch> <prop> : applies a seeded change to /repo, runs the quick check, reverts.
set -u
git -C /repo apply "$1" || exit 9
/verif/bin/govc check "$2" -no-evidence ${3:-} 2>&1 | tail -${TAILN:-6}
echo "exit=$?"
git -C /repo checkout -- . 
git -C /repo status --short | head
