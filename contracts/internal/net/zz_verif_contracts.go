//go:build verif

// Contracts for package net (gRPC listeners). Comment-only file: adds no code.
// Read by /verif/govc; see /verif/DESIGN.md §4.

package net

// ---- C14 / C12: what every handler proof under C14 leans on is installed on the peer-facing server ------------------------
// The C14 contracts of the handlers (flags recovered) take a panic to be contained when no lock is left held: that is true
// only because the private listener chains grpcrecovery's interceptors in front of every unary and streaming handler.
// C12: the number of concurrent streams per transport is capped.
//@ ghost isRecoveryInterceptor(ref) bool
//@ extern github.com/grpc-ecosystem/go-grpc-middleware/recovery.UnaryServerInterceptor(opts) (r)
//@   trusted grpc-ecosystem recovery middleware: turns a panic of the handler into a gRPC error
//@   modifies nothing
//@   ensures isRecoveryInterceptor(r)
//@ extern github.com/grpc-ecosystem/go-grpc-middleware/recovery.StreamServerInterceptor(opts) (r)
//@   trusted grpc-ecosystem recovery middleware: turns a panic of the handler into a gRPC error
//@   modifies nothing
//@   ensures isRecoveryInterceptor(r)
//@ extern github.com/grpc-ecosystem/go-grpc-middleware.ChainUnaryServer(interceptors) (r)
//@   trusted chains the interceptors in the order given
//@   modifies nothing
//@ extern github.com/grpc-ecosystem/go-grpc-middleware.ChainStreamServer(interceptors) (r)
//@   trusted chains the interceptors in the order given
//@   modifies nothing

//@ func NewGRPCListenerForPrivate(ctx, bindingAddr, s, opts) (l, err)
//@   props C14 C12
//@   call ChainUnaryServer#0: assert [C14:panics-of-unary-handlers-on-the-peer-facing-server-are-recovered] exists k int :: 0 <= k && k < len(arg0) && isRecoveryInterceptor(arg0[k])
//@   call ChainStreamServer#0: assert [C14:panics-of-streaming-handlers-on-the-peer-facing-server-are-recovered] exists k int :: 0 <= k && k < len(arg0) && isRecoveryInterceptor(arg0[k])
//@   call MaxConcurrentStreams#0: assert [C12:concurrent-streams-per-peer-connection-are-capped] 0 < arg0 && arg0 <= 1024
