//go:build verif

// Contracts for package net (gRPC listeners). Comment-only file: adds no code.
// Read by /verif/govc; see /verif/DESIGN.md §4.

package net

// ---- C14 / C12: what every handler proof under C14 leans on is installed on the peer-facing server ------------------------
// The C14 contracts of the handlers (flags recovered) take a panic to be contained when no lock is left held: that is true
// only because the private listener chains grpcrecovery's interceptors in front of every unary and streaming handler.
// C12: the number of concurrent streams per transport is capped.
//@ ghost isRecoveryInterceptor(ref) bool
//@ extern github.com/grpc-ecosystem/go-grpc-middleware/recovery.UnaryServerInterceptor(opts) (r)
//@   trusted grpc-ecosystem recovery middleware: turns a panic of the handler into a gRPC error
//@   modifies nothing
//@   ensures isRecoveryInterceptor(r)
//@ extern github.com/grpc-ecosystem/go-grpc-middleware/recovery.StreamServerInterceptor(opts) (r)
//@   trusted grpc-ecosystem recovery middleware: turns a panic of the handler into a gRPC error
//@   modifies nothing
//@   ensures isRecoveryInterceptor(r)
// chainRecovers(c): c is an interceptor chain that contains a recovery interceptor; optRecoversUnary / optRecoversStream(o):
// o is the server option that installs such a chain; isStreamCap(o): o is the server option that caps concurrent streams.
//@ ghost chainRecovers(ref) bool
//@ ghost optRecoversUnary(ref) bool
//@ ghost optRecoversStream(ref) bool
//@ ghost isStreamCap(ref) bool
//@ extern github.com/grpc-ecosystem/go-grpc-middleware.ChainUnaryServer(interceptors) (r)
//@   trusted chains the interceptors in the order given
//@   modifies nothing
//@   ensures (exists k int :: 0 <= k && k < len(interceptors) && isRecoveryInterceptor(interceptors[k])) ==> chainRecovers(r)
//@ extern github.com/grpc-ecosystem/go-grpc-middleware.ChainStreamServer(interceptors) (r)
//@   trusted chains the interceptors in the order given
//@   modifies nothing
//@   ensures (exists k int :: 0 <= k && k < len(interceptors) && isRecoveryInterceptor(interceptors[k])) ==> chainRecovers(r)
//@ extern google.golang.org/grpc.UnaryInterceptor(i) (o)
//@   trusted grpc: the server option that installs i as the unary interceptor
//@   modifies nothing
//@   ensures chainRecovers(i) ==> optRecoversUnary(o)
//@ extern google.golang.org/grpc.StreamInterceptor(i) (o)
//@   trusted grpc: the server option that installs i as the stream interceptor
//@   modifies nothing
//@   ensures chainRecovers(i) ==> optRecoversStream(o)
//@ extern google.golang.org/grpc.MaxConcurrentStreams(n) (o)
//@   trusted grpc: the server option that caps the number of concurrent streams of one transport at n
//@   modifies nothing
//@   ensures isStreamCap(o)

//@ func NewGRPCListenerForPrivate(ctx, bindingAddr, s, opts) (l, err)
//@   props C14 C12
//@   call ChainUnaryServer#0: assert [C14:panics-of-unary-handlers-on-the-peer-facing-server-are-recovered] exists k int :: 0 <= k && k < len(arg0) && isRecoveryInterceptor(arg0[k])
//@   call ChainStreamServer#0: assert [C14:panics-of-streaming-handlers-on-the-peer-facing-server-are-recovered] exists k int :: 0 <= k && k < len(arg0) && isRecoveryInterceptor(arg0[k])
//@   call MaxConcurrentStreams#0: assert [C12:concurrent-streams-per-peer-connection-are-capped] 0 < arg0 && arg0 <= 1024
// ... and the options reach the server that is started: the list handed to grpc.NewServer contains them
//@   call NewServer#0: assert [C14:the-server-that-is-started-has-the-unary-recovery-chain] exists k int :: 0 <= k && k < len(arg0) && optRecoversUnary(arg0[k])
//@   call NewServer#0: assert [C14:the-server-that-is-started-has-the-stream-recovery-chain] exists k int :: 0 <= k && k < len(arg0) && optRecoversStream(arg0[k])
//@   call NewServer#0: assert [C12:the-server-that-is-started-has-the-stream-cap] exists k int :: 0 <= k && k < len(arg0) && isStreamCap(arg0[k])
