//go:build verif

// Contracts for package chain. Comment-only file: adds no code.

package chain

// be64(r): the 8-byte big-endian encoding of round r (key order = round order).
//@ ghost be64(int) bytes
//@ ghost rd64(bytes) int
//@ axiom be64-length: forall r int {be64(r)} :: len(be64(r)) == 8
//@ axiom be64-decodes-back: forall r uint64 {rd64(be64(r))} :: rd64(be64(r)) == r
//@ axiom rd64-encodes-back: forall b bytes {rd64(b)} :: len(b) == 8 ==> bytesEq(be64(rd64(b)), b) && 0 <= rd64(b) && rd64(b) <= 18446744073709551615

//@ extern RoundToBytes(r) (k)
//@   trusted make([]byte,8) + binary.BigEndian.PutUint64 (encoding/binary assumed)
//@   modifies nothing
//@   ensures k == be64(r) && k != nil

//@ extern BytesToRound(b) (r)
//@   trusted binary.BigEndian.Uint64
//@   modifies nothing
//@   ensures r == rd64(b)
