//go:build verif

// Contracts for package memdb (in-memory ring back-end). Comment-only file: adds no code.
// Read by /verif/govc; see /verif/DESIGN.md §4.

package memdb

// ---- C18 (and the memdb clause of C02): the ring is a sorted round -> beacon map -----------------

//@ pred memShape(s) := s.storeMtx != nil && s.bufferSize >= 10 && len(s.store) <= s.bufferSize
//@ pred memNonNil(s) := forall k int {s.store[k]} :: 0 <= k && k < len(s.store) ==> s.store[k] != nil
//@ pred memSorted(s) := forall i int, j int {s.store[i], s.store[j]} :: 0 <= i && i < j && j < len(s.store) ==> s.store[i].Round < s.store[j].Round
//@ pred memInv(s) := memShape(s) && memNonNil(s) && memSorted(s)
//@ pred memHas(s, r) := exists k int :: 0 <= k && k < len(s.store) && s.store[k].Round == r

//@ func (*Store).Len(s, ctx) (n, err)
//@   props C18
//@   flags lockcheck
//@   requires s.storeMtx != nil
//@   modifies nothing
//@   ensures [C18:mem-len-counts-stored-rounds] err == nil && n == len(s.store)

//@ func (*Store).Get(s, ctx, round) (b, err)
//@   props C18
//@   flags lockcheck
//@   requires memInv(s)
//@   modifies nothing
//@   loop 0: invariant [C18:mem-get-scan] -1 <= rangeindex && rangeindex < len(s.store) && (forall k int :: 0 <= k && k <= rangeindex ==> s.store[k].Round != round)
//@   ensures [C18:mem-get-returns-the-beacon-of-that-round] err == nil ==> b != nil && b.Round == round && (exists k int :: 0 <= k && k < len(s.store) && s.store[k] == b)
//@   ensures [C18:mem-get-fails-only-for-absent-rounds] err != nil ==> b == nil && !memHas(s, round)

//@ func (*Store).Last(s, ctx) (b, err)
//@   props C18
//@   flags lockcheck
//@   requires memInv(s)
//@   modifies nothing
//@   ensures [C18:mem-last-is-the-highest-round] err == nil ==> b != nil && len(s.store) > 0 && b == s.store[len(s.store) - 1] && (forall k int :: 0 <= k && k < len(s.store) ==> s.store[k].Round <= b.Round)
//@   ensures [C18:mem-last-fails-only-when-empty] err != nil ==> len(s.store) == 0

//@ func (*memDBCursor).First(m, ctx) (b, err)
//@   props C18 C11
//@   flags lockcheck
//@   requires m.s != nil && memInv(m.s)
//@   modifies m.pos, m.cur, m.placed
//@   ensures [C18:mem-cursor-first-is-lowest-round] err == nil ==> m.pos == 0 && b == m.s.store[0] && (forall k int :: 0 <= k && k < len(m.s.store) ==> b.Round <= m.s.store[k].Round)
//@   ensures [C11,C18:mem-cursor-remembers-the-round-it-stands-on] err == nil ==> m.placed && m.cur == b.Round
//@   ensures [C18:mem-cursor-first-fails-only-when-empty] err != nil ==> len(m.s.store) == 0

// The cursor remembers the round of the beacon it stands on (m.cur, once placed): the ring drops its oldest entries as new
// beacons are stored, so an index does not identify that beacon from one call to the next. C11 asks that a scan skips no
// stored round "while new beacons are being stored concurrently": Next moves to the smallest stored round above the one
// it stood on, whatever happened to the ring between the two calls (fix: the cursor was positional).
//@ func (*memDBCursor).Next(m, ctx) (b, err)
//@   props C18 C11
//@   flags lockcheck
//@   requires m.s != nil && memInv(m.s) && 0 <= m.pos && m.pos < 9223372036854775807
//@   modifies m.pos, m.cur, m.placed
//@   loop 0: invariant [C18:mem-next-scan] -1 <= rangeindex && rangeindex < len(m.s.store) && m.pos == len(m.s.store) && m.cur == old(m.cur) && m.placed == old(m.placed) && (forall k int :: 0 <= k && k <= rangeindex ==> m.s.store[k].Round <= m.cur)
//@   ensures [C11,C18:mem-cursor-next-is-the-successor-of-the-round-it-stood-on] old(m.placed) && err == nil ==> b.Round > old(m.cur) && (forall k int :: 0 <= k && k < len(m.s.store) && m.s.store[k].Round > old(m.cur) ==> b.Round <= m.s.store[k].Round)
//@   ensures [C11,C18:mem-cursor-next-reports-the-end-only-at-the-end] old(m.placed) && err != nil ==> (forall k int :: 0 <= k && k < len(m.s.store) ==> m.s.store[k].Round <= old(m.cur))
//@   ensures [C18:mem-cursor-next-returns-the-entry-it-stands-on] err == nil ==> 0 <= m.pos && m.pos < len(m.s.store) && b == m.s.store[m.pos] && m.placed && m.cur == b.Round
//@   ensures [C18:an-unplaced-cursor-steps-by-position] !old(m.placed) && err == nil ==> m.pos == old(m.pos) + 1

//@ func (*memDBCursor).Seek(m, ctx, round) (b, err)
//@   props C18 C11
//@   flags lockcheck
//@   requires m.s != nil && memInv(m.s)
//@   modifies m.pos, m.cur, m.placed
//@   loop 0: invariant [C18:mem-seek-scan] -1 <= rangeindex && rangeindex < len(m.s.store) && m.pos == old(m.pos) && m.cur == old(m.cur) && m.placed == old(m.placed) && (forall k int :: 0 <= k && k <= rangeindex ==> m.s.store[k].Round < round)
//@   ensures [C18:mem-seek-stands-on-the-first-stored-round-at-or-after-the-requested-one] err == nil ==> b != nil && b.Round >= round && 0 <= m.pos && m.pos < len(m.s.store) && m.s.store[m.pos] == b && (forall k int :: 0 <= k && k < m.pos ==> m.s.store[k].Round < round)
//@   ensures [C18:mem-seek-of-a-stored-round-returns-that-round] err == nil && memHas(m.s, round) ==> b.Round == round
//@   ensures [C11,C18:mem-cursor-remembers-the-round-it-stands-on] err == nil ==> m.placed && m.cur == b.Round
//@   ensures [C18:mem-seek-fails-only-for-absent-rounds] err != nil ==> !memHas(m.s, round) && m.pos == old(m.pos)
// C11: the stream routine starts its catch-up scan with Seek(from) and takes "nothing stored" as the end of the data: that
// answer is right only when no round at or after `from` is stored (this is what the abstract cursor contract the C11
// proof of SyncChain leans on says; the ring forgets old rounds, so a start round below the retained window is ordinary)
//@   ensures [C11:mem-seek-reports-nothing-stored-only-when-nothing-is-stored-at-or-after-the-round] is(err, errors.ErrNoBeaconStored) ==> (forall k int {m.s.store[k]} :: 0 <= k && k < len(m.s.store) ==> m.s.store[k].Round < round)

//@ func (*memDBCursor).Last(m, ctx) (b, err)
//@   props C18 C11
//@   flags lockcheck
//@   requires m.s != nil && memInv(m.s)
//@   modifies m.pos, m.cur, m.placed
//@   ensures [C11,C18:mem-cursor-remembers-the-round-it-stands-on] err == nil ==> m.placed && m.cur == b.Round
//@   ensures [C18:mem-cursor-last-is-highest-round] err == nil ==> m.pos == len(m.s.store) - 1 && b == m.s.store[m.pos] && (forall k int :: 0 <= k && k < len(m.s.store) ==> m.s.store[k].Round <= b.Round)

//@ pred beaconsOf(x) := asSlice(x, "[]*github.com/drand/drand/v2/common.Beacon")

//@ extern sort.Slice@github.com/drand/drand/v2/internal/chain/memdb(x, less)
//@   trusted sort.Slice applied with memdb's comparator s.store[i].Round < s.store[j].Round (the only sort.Slice call in the package): sorts the slice in place by Round; the result is a permutation of the input
//@   modifies elems(beaconsOf(x))
//@   ensures forall i int, j int {beaconsOf(x)[i], beaconsOf(x)[j]} :: 0 <= i && i < j && j < len(beaconsOf(x)) ==> beaconsOf(x)[i].Round <= beaconsOf(x)[j].Round
//@   ensures (forall i int, j int {old(beaconsOf(x)[i]), old(beaconsOf(x)[j])} :: 0 <= i && i < j && j < len(beaconsOf(x)) ==> old(beaconsOf(x)[i].Round) != old(beaconsOf(x)[j].Round)) ==> (forall i int, j int {beaconsOf(x)[i], beaconsOf(x)[j]} :: 0 <= i && i < j && j < len(beaconsOf(x)) ==> beaconsOf(x)[i].Round < beaconsOf(x)[j].Round)
//@   ensures forall i int {beaconsOf(x)[i]} :: 0 <= i && i < len(beaconsOf(x)) ==> (exists j int :: 0 <= j && j < len(beaconsOf(x)) && beaconsOf(x)[i] == old(beaconsOf(x)[j]))
//@   ensures forall j int {old(beaconsOf(x)[j])} :: 0 <= j && j < len(beaconsOf(x)) ==> (exists i int :: 0 <= i && i < len(beaconsOf(x)) && beaconsOf(x)[i] == old(beaconsOf(x)[j]))

//@ func (*Store).Put(s, ctx, beacon) (err)
//@   props C18 C02
//@   flags lockcheck
//@   requires memInv(s) && beacon != nil
//@   loop 0: invariant [C18:mem-put-duplicate-scan] -1 <= rangeindex && rangeindex < len(s.store) && s.store == old(s.store) && (forall k int {s.store[k]} :: 0 <= k && k <= rangeindex ==> s.store[k].Round != beacon.Round)
//@   ensures [C18:mem-put-always-succeeds] err == nil
//@   ensures [C18,C02:mem-put-keeps-the-stored-value-of-an-existing-round] old(memHas(s, beacon.Round)) ==> s.store == old(s.store)
//@   ensures [C18,C02:mem-put-never-exceeds-capacity] len(s.store) <= s.bufferSize && s.bufferSize == old(s.bufferSize)
//@   ensures [C18,C02:mem-put-grows-by-at-most-the-new-round] len(s.store) <= old(len(s.store)) + 1 && (len(s.store) < old(len(s.store)) + 1 && !old(memHas(s, beacon.Round)) ==> len(s.store) == s.bufferSize)
//@   call Slice#0: assert [C18,C02:mem-put-sorts-the-untrimmed-window] len(s.store) == old(len(s.store)) + 1 && !old(memHas(s, beacon.Round))
//@   call append#0: assert [C18,C02:mem-put-inserts-before-trimming] s.store == old(s.store)
// The remaining clause of the ring ("it forgets only rounds older than everything it keeps", which needs the
// permutation semantics of sort.Slice under quantifier alternation) did not discharge within the solver budget; it is
// covered by a BOUNDED differential check against a reference sorted map (bounded/index.json), never counted as proved.

// ---- C18: deleting a round from the ring removes exactly that round and keeps the order of the others -----------------
//@ func (*Store).Del(s, ctx, round) (err)
//@   props C18
//@   flags lockcheck
//@   requires memInv(s)
//@   modifies s.store, elems(s.store)
//@   loop 0: invariant [C18:mem-del-scan] -1 <= rangeindex0 && rangeindex0 < len(s.store) && s.store == old(s.store) && (forall k int {s.store[k]} :: 0 <= k && k <= rangeindex0 ==> s.store[k].Round != round)
//@   ensures [C18:mem-del-of-an-absent-round-changes-nothing] foundIdx == -1 ==> s.store == old(s.store) && (forall k int {s.store[k]} :: 0 <= k && k < len(s.store) ==> s.store[k].Round != round)
//@   ensures [C18:mem-del-removes-one-entry-of-that-round] foundIdx != -1 ==> 0 <= foundIdx && foundIdx < old(len(s.store)) && len(s.store) == old(len(s.store)) - 1
//@   ensures [C18:mem-del-never-fails] err == nil
//@   ensures [C18:mem-del-removes-the-entry-of-that-round] foundIdx != -1 ==> old(s.store[foundIdx].Round) == round
//@   ensures [C18:mem-del-keeps-the-entries-before-it] foundIdx != -1 ==> (forall k int {s.store[k]} :: 0 <= k && k < foundIdx ==> s.store[k] == old(s.store[k]))
// (that the entries after the removed one keep their order - new[k] == old[k+1] - did not discharge within the budget:
// the in-place append over an overlapping region needs a quantified copy argument; not claimed)
