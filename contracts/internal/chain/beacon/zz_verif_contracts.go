//go:build verif

// Contracts for package beacon. Comment-only file: adds no code.
// Read by /verif/govc; see /verif/DESIGN.md §4.

package beacon

// ---- abstract view of a chain.Store (ghost state keyed by the store value) ----
//
// stored(s, r)  : round r is present in store s
// sigOf(s, r)   : signature stored for round r;  prevOf(s, r): previous signature stored for round r

//@ ghostfield stored(ref, int) bool
//@ ghostfield sigOf(ref, int) bytes
//@ ghostfield prevOf(ref, int) bytes
// lowerLayer(s): s is one of the layers below the append store (scheme / discrepancy / raw back-end), none of which
// reports ErrBeaconAlreadyStored. This is an assumption about how newChainStore stacks the layers (listed in evidence).
//@ ghost lowerLayer(ref) bool

//@ iface (github.com/drand/drand/v2/internal/chain.Store).Put(s, ctx, b) (err)
//@   trusted abstract map contract of a store layer (the concrete back-ends are verified against the same shape under C18): a successful Put records b under b.Round, other stored rounds keep their value, nothing new appears, a failed Put changes nothing; the only beacon field a layer may change is PreviousSig (cleared by schemeStore on unchained schemes)
//@   modifies stored(s), sigOf(s), prevOf(s), cannotRead(s), b.PreviousSig
//@   ensures err == nil ==> stored(s, b.Round) && sigOf(s, b.Round) == b.Signature && prevOf(s, b.Round) == b.PreviousSig
//@   ensures forall r int :: r != b.Round && stored(s, r) ==> old(stored(s, r)) && sigOf(s, r) == old(sigOf(s, r)) && prevOf(s, r) == old(prevOf(s, r))
//@   ensures err != nil ==> (forall r int :: stored(s, r) == old(stored(s, r)) && sigOf(s, r) == old(sigOf(s, r)) && prevOf(s, r) == old(prevOf(s, r)))
//@   ensures b.PreviousSig == old(b.PreviousSig) || b.PreviousSig == nil
//@   ensures is(err, ErrBeaconAlreadyStored) ==> stored(s, b.Round) && bytesEq(sigOf(s, b.Round), b.Signature)
//@   ensures lowerLayer(s) ==> !is(err, ErrBeaconAlreadyStored)

//@ iface (github.com/drand/drand/v2/internal/chain.Store).Last(s, ctx) (b, err)
//@   trusted Last returns a beacon that is stored (head of the view) or an error
//@   modifies nothing
//@   ensures err == nil ==> b != nil && stored(s, b.Round) && sigOf(s, b.Round) == b.Signature && prevOf(s, b.Round) == b.PreviousSig
//@   ensures err == nil ==> (forall r int :: stored(s, r) ==> r <= b.Round)

// cannotRead(s, r): reading round r back from store s fails (missing, undecodable, ...). Assumption: reading a round twice
// without a Put in between gives the same outcome.
//@ ghostfield cannotRead(ref, int) bool
//@ iface (github.com/drand/drand/v2/internal/chain.Store).Get(s, ctx, round) (b, err)
//@   trusted abstract map contract of a store layer (the concrete back-ends are verified against the same shape under C18): a successful Get returns the stored beacon of exactly the requested round
//@   modifies nothing
//@   ensures err == nil ==> b != nil && b.Round == round && stored(s, round) && sigOf(s, round) == b.Signature && prevOf(s, round) == b.PreviousSig
//@   ensures (err != nil) == cannotRead(s, round)

// ---- C02: append-only, gap-free ------------------------------------------------

//@ func newAppendStore(ctx, s) (res, err)
//@   props C02
//@   modifies nothing
//@   ensures [C02:append-store-starts-at-head] err == nil ==> typeis(res, "*appendStore") && as(res, "*appendStore").last != nil && as(res, "*appendStore").Store == s
//@   ensures [C02:append-store-last-is-stored-head] err == nil ==> stored(s, as(res, "*appendStore").last.Round) && (forall r int :: stored(s, r) ==> r <= as(res, "*appendStore").last.Round)

//@ func (*appendStore).Put(a, ctx, b) (err)
//@   props C02
//@   flags lockcheck
//@   requires b != nil && a.last != nil && a.last.Round < 18446744073709551615
//@   requires lowerLayer(a.Store)
//@   requires stored(a.Store, a.last.Round) && sigOf(a.Store, a.last.Round) == a.last.Signature
//@   modifies a.last, stored(a.Store), sigOf(a.Store), prevOf(a.Store), cannotRead(a.Store), b.PreviousSig
//@   call Put#0: assert [C02:the-check-and-the-write-are-one-critical-section] held(a.Mutex)
//@   ensures [C02:last-is-stored-invariant] stored(a.Store, a.last.Round) && sigOf(a.Store, a.last.Round) == a.last.Signature
//@   ensures [C02:already-stored-means-present] is(err, ErrBeaconAlreadyStored) ==> stored(a.Store, b.Round) && bytesEq(sigOf(a.Store, b.Round), b.Signature)
//@   ensures [C02:only-last-plus-one-accepted] err == nil ==> b.Round == old(a.last.Round) + 1
//@   ensures [C02:last-tracks-head] err == nil ==> a.last == b
//@   ensures [C02:stored-on-success] err == nil ==> stored(a.Store, b.Round) && sigOf(a.Store, b.Round) == b.Signature && prevOf(a.Store, b.Round) == b.PreviousSig
//@   ensures [C02:error-leaves-last] err != nil ==> a.last == old(a.last)
//@   ensures [C02:never-replaces-or-invents-other-rounds] forall r int :: r != old(a.last.Round) + 1 && stored(a.Store, r) ==> old(stored(a.Store, r)) && sigOf(a.Store, r) == old(sigOf(a.Store, r)) && prevOf(a.Store, r) == old(prevOf(a.Store, r))
//@   ensures [C02:rejected-put-writes-nothing] b.Round != old(a.last.Round) + 1 ==> err != nil && (forall r int :: stored(a.Store, r) == old(stored(a.Store, r)) && sigOf(a.Store, r) == old(sigOf(a.Store, r)) && prevOf(a.Store, r) == old(prevOf(a.Store, r)))
//@   ensures [C02:already-stored-only-if-identical] is(err, ErrBeaconAlreadyStored) ==> b.Round == old(a.last.Round) && bytesEq(old(a.last.Signature), b.Signature) && bytesEq(old(a.last.PreviousSig), b.PreviousSig)
//@   ensures [C02:same-round-different-value-is-an-error] b.Round == old(a.last.Round) && !(bytesEq(old(a.last.Signature), b.Signature) && bytesEq(old(a.last.PreviousSig), b.PreviousSig)) ==> err != nil && !is(err, ErrBeaconAlreadyStored)

//@ func NewSchemeStore(ctx, s, sch) (res, err)
//@   props C02
//@   requires sch != nil
//@   modifies nothing
//@   ensures [C02:chained-iff-default-scheme] err == nil ==> typeis(res, "*schemeStore") && (as(res, "*schemeStore").isChained <==> sch.Name == crypto.DefaultSchemeID)
//@   ensures [C02:scheme-store-starts-at-head] err == nil ==> as(res, "*schemeStore").last != nil && as(res, "*schemeStore").Store == s && stored(s, as(res, "*schemeStore").last.Round)

//@ func (*schemeStore).Put(a, ctx, b) (err)
//@   props C02
//@   flags lockcheck
//@   requires b != nil && a.last != nil
//@   modifies a.last, stored(a.Store), sigOf(a.Store), prevOf(a.Store), cannotRead(a.Store), b.PreviousSig
//@   ensures [C02:chained-link-enforced] a.isChained && err == nil ==> bytesEq(old(a.last.Signature), old(b.PreviousSig))
//@   ensures [C02:chained-link-mismatch-writes-nothing] a.isChained && !bytesEq(old(a.last.Signature), old(b.PreviousSig)) ==> err != nil && (forall r int :: stored(a.Store, r) == old(stored(a.Store, r)) && sigOf(a.Store, r) == old(sigOf(a.Store, r)))
//@   ensures [C02:unchained-strips-previous] !a.isChained && err == nil ==> b.PreviousSig == nil && prevOf(a.Store, b.Round) == nil
//@   ensures [C02:scheme-last-only-on-success] (err == nil ==> a.last == b) && (err != nil ==> a.last == old(a.last))
//@   ensures [C02:scheme-stored-on-success] err == nil ==> stored(a.Store, b.Round) && sigOf(a.Store, b.Round) == b.Signature

//@ func (*chainStore).tryAppend(c, ctx, last, newB) (ok)
//@   props C02
//@   requires last != nil && newB != nil
//@   modifies stored(c.CallbackStore), sigOf(c.CallbackStore), prevOf(c.CallbackStore), cannotRead(c.CallbackStore), newB.PreviousSig
//@   ensures [C02:aggregator-appends-only-last-plus-one] ok && last.Round < 18446744073709551615 ==> newB.Round == last.Round + 1
//@   ensures [C02:aggregator-success-means-stored-or-identical] ok ==> stored(c.CallbackStore, newB.Round) && bytesEq(sigOf(c.CallbackStore, newB.Round), newB.Signature)
//@   call Put#0: assert [C02:aggregator-put-only-next-round] last.Round < 18446744073709551615 ==> newB.Round == last.Round + 1

// ---- C01 / C10: sync stores only verified beacons -------------------------------

//@ func protoToBeacon(p) (b)
//@   props C01 C20
//@   modifies nothing
//@   ensures [C20:proto-to-beacon-fieldwise] b != nil && (p != nil ==> b.Round == p.Round && b.Signature == p.Signature && b.PreviousSig == p.PreviousSignature)

//@ func beaconToProto(b, beaconID) (p)
//@   props C01 C20
//@   requires b != nil
//@   modifies nothing
//@   ensures [C20:beacon-to-proto-fieldwise] p != nil && p.Round == b.Round && p.Signature == b.Signature && p.PreviousSignature == b.PreviousSig && p.Metadata != nil && p.Metadata.BeaconID == beaconID

//@ func (*SyncManager).tryNode(s, global, from, upTo, peer) (ok)
//@   props C01 C10
//@   ensures [C10:sync-configuration-is-left-alone] s.info == old(s.info) && s.scheme == old(s.scheme) && s.info.Period == old(s.info.Period) && s.info.GenesisTime == old(s.info.GenesisTime) && s.log == old(s.log)
//@   requires s.info != nil && s.scheme != nil && common.validPeriod(s.info.Period) && common.validGenesis(s.info.GenesisTime)
//@   call Put#0: assert [C01,C10:resync-stores-only-verified-beacons] arg2 != nil && crypto.validSig(s.info.PublicKey, crypto.digestOf(s.scheme, arg2.Round, arg2.PreviousSig), arg2.Signature)
//@   call Put#1: assert [C01,C10:sync-stores-only-verified-beacons] arg2 != nil && crypto.validSig(s.info.PublicKey, crypto.digestOf(s.scheme, arg2.Round, arg2.PreviousSig), arg2.Signature)
//@   call Put#0: assert [C10:resync-writes-only-the-requested-rounds] from <= arg2.Round && arg2.Round <= upTo

//@ iface (github.com/drand/drand/v2/internal/net.ProtocolClient).SyncChain(c, ctx, p, in) (ch, err)
//@   trusted gRPC client stub: opens a stream to a peer; touches no node state
//@   modifies nothing
//@ iface (github.com/drand/drand/v2/internal/net.ProtocolClient).PartialBeacon(c, ctx, p, in) (err)
//@   trusted gRPC client stub
//@   modifies nothing

// ---- C03 / C04: partial beacons ------------------------------------------------------

//@ func (*chainStore).NewValidPartial(c, ctx, addr, p)
//@   props C03
//@   modifies nothing

//@ func (*Handler).ProcessPartialBeacon(h, ctx, p) (res, err)
//@   props C03 C04 C07 C14
//@   flags lockcheck nopanic recovered
//@   requires [C14] h.l != nil && h.chain != nil && h.chain.CallbackStore != nil && h.conf.Clock != nil && h.crypto.ThresholdScheme != nil && h.crypto.group != nil && h.crypto.DigestBeacon != nil
//@   requires [C03,C04,C07] h.conf != nil && h.conf.Group != nil && h.crypto != nil && h.crypto.Scheme != nil && h.crypto.share != nil && h.crypto.share.Share != nil
//@   requires [C03,C04,C07] common.validPeriod(h.conf.Group.Period) && common.validGenesis(h.conf.Group.GenesisTime)
//@   call NewValidPartial#0: assert [C03,C07:forwarded-partial-verified-against-live-polynomial] p != nil && crypto.validPartial(h.crypto.pub, crypto.digestOf(h.crypto.Scheme, p.Round, p.PreviousSignature), p.PartialSig)
//@   call NewValidPartial#0: assert [C03,C07:forwarded-partial-from-current-group-member] exists k int :: 0 <= k && k < len(h.crypto.group.Nodes) && h.crypto.group.Nodes[k].Index == crypto.idxOf(p.PartialSig)
//@   call NewValidPartial#0: assert [C03:own-partial-replay-never-forwarded] crypto.idxOf(p.PartialSig) != h.crypto.share.Share.I
//@   call NewValidPartial#0: assert [C04:partial-at-most-one-round-ahead-of-clock] p.Round <= nextRound
//@   call NextRound#0: assert [C04:future-check-uses-group-schedule] arg1 == h.conf.Group.Period && arg2 == h.conf.Group.GenesisTime

//@ func (*partialCache).FlushRounds(c, round)
//@   props C03 C12
// the inner filter that takes the flushed round off a signer's list looks at every entry of the list (it must not stop at
// the flushed id: the ids behind it belong to partials that stay cached and have to stay counted)
//@   loop 2: complete [C12:the-counter-filter-visits-every-id-of-the-signers-list]
//@   loop 1: complete [C12:every-signer-of-a-flushed-round-has-its-counter-updated]
//@   loop 0: complete [C12:every-round-cache-is-examined-by-a-flush]
//@   requires c.rounds != nil
//@   modifies mapof(c.rounds), mapof(c.rcvd), heap("E:Str")

//@ extern toPeers(nodes) (peers)
//@   trusted copies identities into a fresh slice
//@   modifies nothing

//@ func (*partialCache).GetRoundCache(c, round, previous) (rc)
//@   props C03 C12
//@   modifies nothing

//@ func (*roundCache).Len(r) (n)
//@   props C03
//@   modifies nothing
//@   ensures [C03:round-cache-length-counts-distinct-indices] n == len(r.sigs)

//@ func (*roundCache).Partials(r) (ps)
//@   props C03
//@   modifies nothing
//@   loop 0: invariant isnew(partials)

//@ func (*chainStore).shouldSync(c, last, newB) (r)
//@   props C05
//@   modifies nothing

//@ extern (*SyncManager).SendSyncRequest(s, ctx, upTo, nodes)
//@   trusted enqueues a sync request on a channel
//@   modifies nothing

//@ func (*chainStore).runAggregator(c)
//@   props C01 C03 C07
//@   requires c.crypto != nil && c.crypto.Scheme != nil
//@   rely c.crypto.group, c.crypto.pub, c.crypto.share
//@   call Recover#0: assert [C03:aggregation-only-with-threshold-of-distinct-cached-partials] len(roundCache.sigs) >= arg4 && arg4 == c.crypto.group.Threshold
//@   call Recover#0: assert [C03:recovery-uses-live-polynomial-and-round-digest] arg1 == c.crypto.pub && arg2 == crypto.digestOf(c.crypto.Scheme, roundCache.round, roundCache.prev)
//@   call tryAppend#0: assert [C01:aggregated-beacon-verified-under-group-key-for-its-round] arg3 != nil && crypto.validSig(crypto.commitOf(c.crypto.pub), crypto.digestOf(c.crypto.Scheme, arg3.Round, arg3.PreviousSig), arg3.Signature)
//@   call tryAppend#0: assert [C01:aggregated-beacon-is-built-from-the-round-cache] arg3.Round == roundCache.round && arg3.PreviousSig == roundCache.prev

// ---- C12: bounded partial cache, eviction confined to the flooding signer ---------------

//@ pred cacheBounded(c) := forall i int :: has(c.rcvd, i) ==> len(c.rcvd[i]) <= MaxPartialsPerNode
//@ pred cacheShape(c) := c.rounds != nil && c.rcvd != nil && c.scheme != nil && (forall r string :: has(c.rounds, r) ==> c.rounds[r] != nil && c.rounds[r].sigs != nil && c.rounds[r].scheme != nil)

//@ func newRoundCache(id, p, s) (rc)
//@   props C12
//@   modifies nothing
//@   ensures rc != nil && rc.sigs != nil && len(rc.sigs) == 0 && rc.scheme == s && rc.id == id && isnew(rc) && (forall j int :: !has(rc.sigs, j))

//@ func (*roundCache).flushIndex(r, idx)
//@   props C12
//@   modifies mapof(r.sigs)
//@   ensures [C12:flushIndex-removes-only-that-signer] !has(r.sigs, idx) && (forall j int :: j != idx ==> has(r.sigs, j) == old(has(r.sigs, j)))

//@ func (*roundCache).append(r, p) (added)
//@   props C03 C12
//@   requires r.sigs != nil && r.scheme != nil
//@   modifies mapof(r.sigs)
//@   ensures [C03:duplicate-index-never-counts-twice] (forall j int :: old(has(r.sigs, j)) ==> has(r.sigs, j)) && len(r.sigs) <= old(len(r.sigs)) + 1 && (!added ==> len(r.sigs) == old(len(r.sigs)))
//@   ensures [C03:append-adds-only-the-signers-own-slot] forall j int :: p != nil && j != crypto.idxOf(p.PartialSig) ==> has(r.sigs, j) == old(has(r.sigs, j))
//@   ensures [C03,C12:a-refused-partial-changes-nothing-an-accepted-one-is-stored-under-its-signer] (!added ==> (forall j int :: has(r.sigs, j) == old(has(r.sigs, j)))) && (added && p != nil ==> has(r.sigs, crypto.idxOf(p.PartialSig)))

//@ func (*partialCache).getCache(c, id, p) (rc, err)
//@   props C12
//@   requires cacheShape(c) && p != nil
//@   modifies mapof(c.rounds)
//@   ensures [C12:getCache-keeps-cache-shape] cacheShape(c)
//@   ensures [C12:getCache-returns-registered-round] err == nil ==> rc != nil && has(c.rounds, id) && c.rounds[id] == rc
//@   ensures [C12:getCache-keeps-existing-rounds] forall r string :: old(has(c.rounds, r)) ==> has(c.rounds, r) && c.rounds[r] == old(c.rounds[r])
//@   ensures [C12:a-round-cache-made-for-this-call-starts-empty] err == nil && !old(has(c.rounds, id)) ==> (forall j int :: !has(rc.sigs, j))

//@ func (*partialCache).evictOldest(c, idx)
//@   props C12
//@   requires cacheShape(c) && has(c.rcvd, idx) && len(c.rcvd[idx]) >= 1
//@   modifies mapof(c.rounds), mapof(c.rcvd), heap("MD:map[int][]byte"), heap("MV:map[int][]byte"), heap("ML:map[int][]byte")
//@   ensures [C12:evict-removes-exactly-one-id-of-that-signer] has(c.rcvd, idx) && len(c.rcvd[idx]) == old(len(c.rcvd[idx])) - 1
//@   ensures [C12:evict-leaves-other-signers-counters] forall i int :: i != idx ==> has(c.rcvd, i) == old(has(c.rcvd, i)) && c.rcvd[i] == old(c.rcvd[i])
//@   ensures [C12:evict-keeps-cache-shape] cacheShape(c)
//@   ensures [C12:eviction-keeps-rounds-that-hold-other-signers-partials] forall r string, j int :: j != idx && old(has(c.rounds, r)) && old(has(c.rounds[r].sigs, j)) ==> has(c.rounds, r)
//@   ensures [C12:eviction-keeps-round-objects] forall r string :: has(c.rounds, r) ==> old(has(c.rounds, r)) && c.rounds[r] == old(c.rounds[r])
//@   ensures [C12:eviction-keeps-other-signers-partials] forall x *roundCache, j int :: j != idx ==> has(x.sigs, j) == old(has(x.sigs, j))

// accounting: every cached partial is counted against its signer (with cacheBounded this is what bounds the memory a signer
// can occupy): a partial that Append newly caches is put last on its signer's list in the same call; a partial that was
// cached already leaves the list as it is. cachedFor(c, r, j): round cache r holds a partial of signer j.
//@ pred cachedFor(c, r, j) := has(c.rounds, r) && has(c.rounds[r].sigs, j)
// ridOf(round, previous signature): the key of a round cache
//@ ghost ridOf(int, bytes) string
// The key is built from the round number (8 bytes) and the WHOLE previous signature, both written into one buffer whose
// content is returned: two partials of one round over different previous signatures never share a round cache (C03: a
// partial signed for another previous signature never counts towards the threshold). The string made of those bytes is
// a function of (round, previous): introduced by definition at the return (trusted: bytes.Buffer concatenates).
// (round0 / prev0 name the values the function was entered with: Go parameters are assignable.)
//@ func roundID(round0, prev0) (r)
//@   props C03 C12
//@   modifies nothing
//@   defines r == ridOf(round0, prev0)
//@   call Write#0: assert [C03:the-round-cache-key-contains-the-round-number] arg0 == addr(buff) && typeis(arg2, "uint64") && ref(arg2) == round0
//@   call Write#1: assert [C03:the-round-cache-key-contains-the-whole-previous-signature] arg0 == addr(buff) && arg1 == prev0
//@   call String#0: assert [C03:the-round-cache-key-is-the-content-of-that-buffer] arg0 == addr(buff)
//@ func (*partialCache).Append(c, p) (err)
//@   props C12
//@   requires [C12] cacheShape(c) && cacheBounded(c) && p != nil
//@   ensures [C12:a-newly-cached-partial-is-counted-against-its-signer-in-the-same-call] err == nil && cachedFor(c, id, idx) && !old(cachedFor(c, ridOf(p.Round, p.PreviousSignature), crypto.idxOf(p.PartialSig))) ==> has(c.rcvd, idx) && len(c.rcvd[idx]) > 0 && c.rcvd[idx][len(c.rcvd[idx]) - 1] == id
//@   modifies mapof(c.rounds), mapof(c.rcvd), heap("E:Str"), heap("MD:map[int][]byte"), heap("MV:map[int][]byte"), heap("ML:map[int][]byte")
//@   ensures [C12:append-keeps-cache-shape] cacheShape(c)
//@   ensures [C12:append-keeps-per-signer-bound] cacheBounded(c)
//@   ensures [C12:flood-never-evicts-other-signers-partials] forall r string, j int :: j != crypto.idxOf(p.PartialSig) && old(has(c.rounds, r)) && old(has(c.rounds[r].sigs, j)) ==> has(c.rounds, r) && c.rounds[r] == old(c.rounds[r]) && has(c.rounds[r].sigs, j)

// ---- C12: storing a beacon never waits on a stream consumer ------------------------------

//@ func (*callbackStore).Put(c, ctx, b) (err)
//@   props C12 C11
//@   flags nonblocking lockcheck delivers
//@   requires b != nil

//@ func (*callbackStore).AddCallback(c, id, fn)
//@   props C12
//@   flags lockcheck nonblocking
//@   requires c.newJob != nil && c.callbacks != nil
//@   ensures [C12:replaced-callback-worker-is-released] old(has(c.newJob, id)) ==> closed(old(c.newJob[id]))
//@   ensures [C12:one-queue-per-callback-id] has(c.newJob, id) && has(c.callbacks, id) && c.newJob[id] != nil && cap(c.newJob[id]) == CallbackWorkerQueue
//@   ensures [C12:add-leaves-other-callbacks] forall k string :: k != id ==> has(c.newJob, k) == old(has(c.newJob, k)) && c.newJob[k] == old(c.newJob[k]) && has(c.callbacks, k) == old(has(c.callbacks, k))

//@ func (*callbackStore).RemoveCallback(c, id)
//@   props C12
//@   flags lockcheck nonblocking
//@   ensures [C12:removed-callback-worker-is-released] old(has(c.newJob, id)) ==> closed(old(c.newJob[id]))
//@   ensures [C12:removed-callback-is-gone] !has(c.newJob, id) && !has(c.callbacks, id)
//@   ensures [C12:remove-leaves-other-callbacks] forall k string :: k != id ==> has(c.newJob, k) == old(has(c.newJob, k)) && c.newJob[k] == old(c.newJob[k]) && has(c.callbacks, k) == old(has(c.callbacks, k))

//@ lemma [C12] callback-queue-is-bounded: CallbackWorkerQueue > 0 && MaxPartialsPerNode > 0

// ---- C04 (send side): no partial for a round beyond the ticked round ------------------

//@ iface (github.com/drand/drand/v2/crypto/vault.CryptoSafe).SignPartial(v, msg) (sig, err)
//@   trusted threshold signing with the node's share
//@   modifies nothing
//@ extern (*github.com/drand/drand/v2/crypto/vault.Vault).SignPartial(v, msg) (sig, err)
//@   trusted threshold signing with the node's share under the vault read lock
//@   modifies nothing

//@ func (*Handler).broadcastNextPartial(h, ctx, current, upon)
//@   props C04
//@   requires [C04] upon != nil && handlerShape(h)
//@   modifies nothing
//@   call SignPartial#0: assert [C04:signed-round-not-beyond-the-ticked-round] round <= current.round && (round == upon.Round + 1 || round == current.round) && arg1 == crypto.digestOf(h.crypto.Scheme, round, previousSig)

//@ pred handlerShape(h) := h != nil && h.crypto != nil && h.conf != nil && h.conf.Group != nil && h.chain != nil

//@ extern (*ticker).ChannelAt(t, start) (ch)
//@   trusted registers a tick channel
//@   modifies nothing
//@ extern (*chainStore).RunSync(c, ctx, upTo, peers)
//@   trusted enqueues a sync request
//@   modifies nothing
//@ extern (*chainStore).AppendedBeaconNoSync(c) (ch)
//@   trusted channel accessor
//@   modifies nothing

//@ func (*Handler).run$1()
//@   props C04
//@   requires [C04] handlerShape(h)
//@   modifies nothing

//@ func (*Handler).run$2(c, latest)
//@   props C04
//@   requires [C04] handlerShape(h)
//@   requires [C04:catch-up-only-when-head-is-behind-the-ticked-round] latest.Round < c.round
//@   modifies nothing

//@ func (*Handler).run(h, startTime)
//@   props C04
//@   requires [C04] handlerShape(h)

// ---- C07: the share / group swap happens when the last round of the old group is stored, and not before -------------
//@ func (*Handler).TransitionNewGroup$1(b, closed)
//@   props C07
//@   requires b != nil && h != nil && h.crypto != nil && h.chain != nil && newGroup != nil
//@   ensures [C07:new-share-and-group-are-live-once-the-last-pre-transition-round-is-stored] !closed && b.Round >= targetRound ==> h.crypto.group == newGroup && h.crypto.share == newShare
//@   ensures [C07:no-swap-before-the-last-pre-transition-round] closed || b.Round < targetRound ==> h.crypto.group == old(h.crypto.group) && h.crypto.share == old(h.crypto.share) && h.crypto.pub == old(h.crypto.pub)

//@ pred wfTransition(h, newGroup) := h.conf != nil && h.conf.Group != nil && h.chain != nil && newGroup != nil && common.validPeriod(h.conf.Group.Period) && common.validGenesis(h.conf.Group.GenesisTime) && newGroup.TransitionTime >= h.conf.Group.GenesisTime && newGroup.TransitionTime <= h.conf.Group.GenesisTime + 1125899906842624
//@ func (*Handler).TransitionNewGroup(h, ctx, newShare, newGroup)
//@   props C07
//@   requires h != nil ==> wfTransition(h, newGroup)
//@   call AddCallback#0: assert [C07:swap-is-armed-for-the-round-just-before-the-transition-time] common.timeOf(h.conf.Group.Period, h.conf.Group.GenesisTime, targetRound + 1) == newGroup.TransitionTime
//@ iface (CallbackStore).AddCallback(s, id, fn)
//@   trusted registers fn in the store's own callback registry (callbackStore.AddCallback is checked under C12); no other state of the functions under contract changes
//@   modifies nothing
//@ iface (CallbackStore).RemoveCallback(s, id)
//@   trusted removes an entry of the store's own callback registry
//@   modifies nothing

// ---- C11: a beacon stream delivers every stored round once, in order, from the requested round ------------------------
// sent(stream, r): round r was delivered on the stream; lastSent / nSent: last delivered round and number of deliveries.
// cursorStore(c): the store a cursor walks; cursorAt(c): the round it stands on.
//@ ghostfield sent(ref, int) bool
//@ ghostfield lastSent(ref) int
//@ ghostfield nSent(ref) int
//@ ghost cursorStore(ref) ref
//@ ghostfield cursorAt(ref) int

//@ iface (SyncStream).Send(s, p) (err)
//@   trusted gRPC server stream: a successful Send delivers the packet to the client, in call order; its errors are transport errors, never the store's end-of-data sentinel
//@   modifies sent(s), lastSent(s), nSent(s)
//@   ensures err == nil ==> sent(s, p.Round) && lastSent(s) == p.Round && nSent(s) == old(nSent(s)) + 1
//@   ensures err != nil ==> lastSent(s) == old(lastSent(s)) && nSent(s) == old(nSent(s)) && !is(err, errors.ErrNoBeaconStored)
//@   ensures forall r int :: r != p.Round ==> sent(s, r) == old(sent(s, r))
//@   ensures old(sent(s, p.Round)) ==> sent(s, p.Round)
//@ iface (SyncStream).Context(s) (c)
//@   trusted accessor
//@   modifies nothing
//@   ensures c != nil

//@ iface (github.com/drand/drand/v2/internal/chain.Cursor).Seek(c, ctx, round) (b, err)
//@   trusted abstract cursor over the store view (the trimmed bolt cursor is checked against the labelling part under C18): Seek stands on the first stored round >= the requested one
//@   modifies cursorAt(c)
//@   ensures b != nil ==> err == nil && stored(cursorStore(c), b.Round) && sigOf(cursorStore(c), b.Round) == b.Signature && prevOf(cursorStore(c), b.Round) == b.PreviousSig && b.Round >= round && cursorAt(c) == b.Round && (forall r int :: round <= r && r < b.Round ==> !stored(cursorStore(c), r))
//@   ensures b == nil ==> err != nil && (is(err, errors.ErrNoBeaconStored) ==> (forall r int :: r >= round ==> !stored(cursorStore(c), r)))
//@ iface (github.com/drand/drand/v2/internal/chain.Cursor).Next(c, ctx) (b, err)
//@   trusted abstract cursor: Next moves to the next stored round, or reports the end of the data
//@   modifies cursorAt(c)
//@   ensures b != nil ==> err == nil && stored(cursorStore(c), b.Round) && sigOf(cursorStore(c), b.Round) == b.Signature && prevOf(cursorStore(c), b.Round) == b.PreviousSig && b.Round > old(cursorAt(c)) && cursorAt(c) == b.Round && (forall r int :: old(cursorAt(c)) < r && r < b.Round ==> !stored(cursorStore(c), r))
//@   ensures b == nil ==> err != nil && cursorAt(c) == old(cursorAt(c)) && (is(err, errors.ErrNoBeaconStored) ==> (forall r int :: r > old(cursorAt(c)) ==> !stored(cursorStore(c), r)))

// theStream() / theStore(): the stream and the store of the SyncChain activation under consideration (its three closures
// share them through captured variables; a closure's contract cannot name another closure's captured variables)
//@ axiom [C11] context-errors-are-not-the-end-of-data-sentinel: forall e iface {ctxErr(e)} :: ctxErr(e) ==> !is(e, errors.ErrNoBeaconStored)
//@ ghost theStream() ref
//@ ghost theStore() ref

//@ func SyncChain$1(b) (err)
//@   props C11
//@   requires b != nil
//@   requires ref(stream) == theStream()
//@   modifies sent(theStream()), lastSent(theStream()), nSent(theStream())
//@   call Send#0: assert [C11:the-packet-sent-is-the-beacon-given] arg1.Round == b.Round && bytesEq(arg1.Signature, b.Signature) && bytesEq(arg1.PreviousSignature, b.PreviousSig)
//@   ensures [C11:send-delivers-that-round-or-fails] (err == nil ==> sent(theStream(), b.Round) && lastSent(theStream()) == b.Round && nSent(theStream()) == old(nSent(theStream())) + 1) && (err != nil ==> lastSent(theStream()) == old(lastSent(theStream())) && nSent(theStream()) == old(nSent(theStream())) && !is(err, errors.ErrNoBeaconStored))
//@   ensures [C11:send-touches-no-other-round] (forall r int :: r != b.Round ==> sent(theStream(), r) == old(sent(theStream(), r))) && (old(sent(theStream(), b.Round)) ==> sent(theStream(), b.Round))

//@ paramfunc SyncChain$2.send(b) (err)
//@   trusted the captured variable `send` holds the closure SyncChain$1 created by the same SyncChain activation (one assignment in the source)
//@   sameas SyncChain$1
//@ paramfunc SyncChain$3.send(b) (err)
//@   trusted the captured variable `send` holds the closure SyncChain$1 created by the same SyncChain activation (one assignment in the source)
//@   sameas SyncChain$1

//@ pred sentUpTo(cs, from, upto) := forall r int :: from <= r && stored(cs, r) && r < upto ==> sent(theStream(), r)

//@ func SyncChain$2(ctx, c) (err)
//@   props C11
//@   requires c != nil && cursorStore(c) == theStore()
//@   modifies sent(theStream()), lastSent(theStream()), nSent(theStream()), cursorAt(c)
//@   loop 0: invariant [C11:every-stored-round-the-cursor-has-passed-was-sent] (bb != nil ==> err == nil && bb.Round == cursorAt(c) && bb.Round >= fromRound && stored(theStore(), bb.Round) && sigOf(theStore(), bb.Round) == bb.Signature && prevOf(theStore(), bb.Round) == bb.PreviousSig && sentUpTo(theStore(), fromRound, cursorAt(c))) && (bb == nil ==> err != nil && (is(err, errors.ErrNoBeaconStored) ==> (forall r int :: fromRound <= r && stored(theStore(), r) ==> sent(theStream(), r))))
//@   loop 0: invariant [C11:catch-up-sends-in-strictly-increasing-round-order] nSent(theStream()) > old(nSent(theStream())) && bb != nil ==> bb.Round > lastSent(theStream())
//@   call send#0: assert [C11:catch-up-sends-the-stored-beacon-the-cursor-stands-on] arg0 != nil && arg0.Round == cursorAt(c) && stored(theStore(), arg0.Round) && sigOf(theStore(), arg0.Round) == arg0.Signature && prevOf(theStore(), arg0.Round) == arg0.PreviousSig
//@   call send#0: assert [C11:catch-up-sends-in-strictly-increasing-round-order] nSent(theStream()) > old(nSent(theStream())) ==> arg0.Round > lastSent(theStream())
//@   ensures [C11:a-completed-catch-up-skipped-no-stored-round] err == nil || is(err, errors.ErrNoBeaconStored) ==> (forall r int :: fromRound <= r && stored(theStore(), r) ==> sent(theStream(), r))

//@ iface (SyncRequest).GetFromRound(r) (n)
//@   trusted protobuf accessor
//@   modifies nothing
//@ iface (SyncRequest).GetMetadata(r) (m)
//@   trusted protobuf accessor
//@   modifies nothing

//@ iface (github.com/drand/drand/v2/internal/chain.Store).Cursor(s, ctx, fn) (err)
//@   trusted every back-end runs fn exactly once with a cursor over itself and returns fn's result (bolt: inside a read transaction)
//@   invokes fn
//@   modifies nothing
//@   ensures err == fnresult

//@ func SyncChain$3(b, closed)
//@   props C11 C12
//@   requires !closed ==> b != nil
//@   call send#0: assert [C11:live-delivery-sends-the-dispatched-beacon] arg0 == b
//@   call RemoveCallback#0: assert [C12:a-stream-whose-send-failed-unregisters-the-callback-it-registered] arg1 == id

// Other goroutines store beacons at any time: before every call of SyncChain the set of stored rounds may have grown
// (append-only, C02). sent / lastSent belong to this activation alone.
//@ func SyncChain(l, store, req, stream) (err)
//@   props C11 C12
//@   flags interleaved
//@   requires [wf] ref(stream) == theStream() && ref(store) == theStore() && l != nil
//@   rely grows stored(theStore())
// C12: the callback is registered under the id of this stream and unregistered under the same id when the stream ends
// (otherwise every consumer that ever went away keeps a registry entry, a queue and a worker for the life of the daemon)
//@   call AddCallback#0: assert [C12:the-live-callback-is-registered-under-the-id-of-this-stream] arg1 == id
//@   call RemoveCallback#0: assert [C12:a-stream-that-ends-unregisters-the-callback-it-registered] arg1 == id
//@   call AddCallback#0: assert [C11:the-head-seen-when-the-stream-started-was-delivered-before-going-live] fromRound != 0 ==> sent(theStream(), last.Round)
//@   call AddCallback#0: assert [C11:no-stored-round-is-skipped-between-catch-up-and-live-delivery] fromRound != 0 ==> (forall r int :: fromRound <= r && stored(theStore(), r) ==> sent(theStream(), r))

// ---- C10: a sync that exhausted its peers says so with the sentinel the callers retry on ------------------------------
//@ extern math/rand.Perm(n) (p)
//@   trusted a permutation of 0..n-1
//@   modifies nothing
//@   ensures len(p) == n

//@ extern peersToString(peers) (r)
//@   trusted formats peer addresses for a log line
//@   modifies nothing

//@ func (*SyncManager).Sync(s, ctx, request) (err)
//@   props C10
//@   requires s.log != nil && s.info != nil && s.scheme != nil && common.validPeriod(s.info.Period) && common.validGenesis(s.info.GenesisTime)
//@   loop 0: invariant [C10:peer-scan-position] -1 <= rangeindex0 && rangeindex0 <= 9223372036854775806 && s.log != nil && s.info != nil && s.scheme != nil && common.validPeriod(s.info.Period) && common.validGenesis(s.info.GenesisTime)
//@   ensures [C10:a-sync-with-no-peer-left-to-try-reports-ErrFailedAll] len(request.nodes) == 0 ==> is(err, ErrFailedAll)
//@   ensures [C10:sync-leaves-the-pinned-configuration-alone] s.log != nil && s.info != nil && s.scheme != nil && common.validPeriod(s.info.Period) && common.validGenesis(s.info.GenesisTime)

// ---- C10: check and repair ------------------------------------------------------------------------------------------------
// faultyRound(s, r): the beacon stored for round r cannot be read back or does not verify under the pinned chain info
//@ pred faultyRound(s, r) := cannotRead(s.store, r) || !crypto.validSig(s.info.PublicKey, crypto.digestOf(s.scheme, r, prevOf(s.store, r)), sigOf(s.store, r))
//@ pred checkBound(last, upTo) := ite(last.Round < upTo, last.Round, upTo)

//@ paramfunc (*SyncManager).CheckPastBeacons.cb(r, u)
//@   trusted progress callback of the control API: reports progress to the operator, touches no state of the sync manager or its store
//@   modifies nothing
//@ func (*SyncManager).CheckPastBeacons(s, ctx, upTo, cb) (res, err)
//@   props C10
//@   requires s.log != nil && s.info != nil && s.scheme != nil
//@   modifies nothing
//@   loop 0: invariant [C10:check-scan-position] 1 <= i && (i <= upTo || i == 1) && isnew(faultyBeacons) && last != nil && s.log != nil && s.info != nil && s.scheme != nil
//@   loop 0: invariant [C10:every-reported-round-is-faulty] forall k int {faultyBeacons[k]} :: 0 <= k && k < len(faultyBeacons) ==> 1 <= faultyBeacons[k] && faultyBeacons[k] < i && faultyRound(s, faultyBeacons[k])
//@   loop 0: invariant [C10:a-faulty-round-is-reported-in-its-own-iteration] i == 1 || (faultyRound(s, i - 1) ==> len(faultyBeacons) > 0 && faultyBeacons[len(faultyBeacons) - 1] == i - 1)
//@   ensures [C10:check-reports-rounds-within-the-bound] err == nil ==> (forall k int {res[k]} :: 0 <= k && k < len(res) ==> 1 <= res[k] && res[k] <= checkBound(last, upTo))
//@   ensures [C10:check-reports-only-faulty-rounds] err == nil ==> (forall k int {res[k]} :: 0 <= k && k < len(res) ==> faultyRound(s, res[k]))
//@   ensures [C10:check-reports-the-last-round-of-the-bound-when-it-is-faulty] err == nil && checkBound(last, upTo) >= 1 && faultyRound(s, checkBound(last, upTo)) ==> len(res) > 0 && res[len(res) - 1] == checkBound(last, upTo)

//@ pred syncConfigured(s) := s.log != nil && s.info != nil && s.scheme != nil && common.validPeriod(s.info.Period) && common.validGenesis(s.info.GenesisTime)

//@ func (*SyncManager).ReSync(s, ctx, from, to, nodes) (err)
//@   props C10
//@   requires syncConfigured(s)
//@   call Sync#0: assert [C10:repair-asks-for-exactly-the-requested-window] arg2.from == from && arg2.upTo == to && arg2.nodes == nodes
//@   call Sync#1: assert [C10:the-retry-asks-for-exactly-the-requested-window] arg2.from == from && arg2.upTo == to && arg2.nodes == nodes
//@   ensures [C10:repair-leaves-the-pinned-configuration-alone] syncConfigured(s)

//@ paramfunc (*SyncManager).CorrectPastBeacons.cb(r, u)
//@   trusted progress callback of the control API: reports progress to the operator, touches no state of the sync manager
//@   modifies nothing

//@ func (*SyncManager).CorrectPastBeacons(s, ctx, faultyBeacons, peers, cb) (err)
//@   props C10
//@   requires syncConfigured(s)
//@   loop 0: invariant [C10:repair-keeps-the-pinned-configuration] syncConfigured(s)
//@   call ReSync#0: assert [C10:repair-re-fetches-exactly-the-round-taken-from-the-report] arg2 == b && arg3 == b && arg4 == peers
//@   ensures [C10:a-failed-repair-is-reported] err == nil && len(faultyBeacons) > 0 ==> len(errAcc) == 0

// ---- C04: ticks carry the round of the instant they fired ---------------------------------------------------------------
//@ func (*ticker).Start(t)
//@   props C04
//@   requires t.clock != nil && common.validPeriod(t.period) && common.validGenesis(t.genesis)
//@   call CurrentRound#0: assert [C04:a-tick-carries-the-round-of-the-instant-it-fired] arg0 == unixOf(nt.wall, nt.ext) && arg1 == t.period && arg2 == t.genesis

// ---- C11: one worker per consumer runs the callbacks itself, one after the other, in queue order ---------------------------
//@ func (*callbackStore).runWorker(c, jobChan)
//@   props C11
//@   flags sequential

// ---- C14: lock discipline of the remaining functions of the beacon handler that take its lock (sweep) -----------------
//@ func (*Handler).IsServing(h) (r)
//@   props C14
//@   flags lockcheck
//@   modifies nothing
//@ func (*Handler).IsRunning(h) (r)
//@   props C14
//@   flags lockcheck
//@   modifies nothing
//@ func (*Handler).IsStopped(h) (r)
//@   props C14
//@   flags lockcheck
//@   modifies nothing
//@ func (*Handler).Stop(h, ctx)
//@   props C14
//@   flags lockcheck

// ---- C02: the timing layer between the scheme store and the database is transparent ------------------------------------
// discrepancyStore.Put measures and logs; what it reports is what the layer below reported: a write that failed below is
// a failure here (otherwise the layers above advance their head over a round that is not on disk), a success here means
// the beacon is recorded below, and nothing else in the view changes.
//@ func (*discrepancyStore).Put(d, ctx, b) (err)
//@   props C02
//@   requires [wf] d.group != nil && d.clock != nil && d.l != nil && b != nil && common.validPeriod(d.group.Period) && common.validGenesis(d.group.GenesisTime)
//@   ensures [C02:the-timing-layer-reports-success-only-when-the-write-below-succeeded] err == nil ==> stored(d.Store, b.Round) && sigOf(d.Store, b.Round) == b.Signature && prevOf(d.Store, b.Round) == b.PreviousSig
//@   ensures [C02:a-write-that-fails-below-the-timing-layer-changes-nothing] err != nil ==> (forall r int :: stored(d.Store, r) == old(stored(d.Store, r)) && sigOf(d.Store, r) == old(sigOf(d.Store, r)) && prevOf(d.Store, r) == old(prevOf(d.Store, r)))
//@   ensures [C02:the-timing-layer-never-replaces-or-invents-other-rounds] forall r int :: r != b.Round && stored(d.Store, r) ==> old(stored(d.Store, r)) && sigOf(d.Store, r) == old(sigOf(d.Store, r)) && prevOf(d.Store, r) == old(prevOf(d.Store, r))

// ---- C02: the store the aggregator writes to is the checked stack ---------------

//@ func newDiscrepancyStore(s, l, group, cl) (res)
//@   props C02
//@   modifies nothing
//@   ensures [C02:timing-layer-wraps-the-given-store] typeis(res, "*discrepancyStore") && as(res, "*discrepancyStore").Store == s

//@ func NewCallbackStore(l, s) (res)
//@   props C02
//@   modifies nothing
//@   ensures [C02:callback-layer-wraps-the-given-store] typeis(res, "*callbackStore") && as(res, "*callbackStore").Store == s && as(res, "*callbackStore").newJob != nil && as(res, "*callbackStore").callbacks != nil && as(res, "*callbackStore").l == l

//@ func NewSyncManager(ctx, c) (m, err)
//@   props C02 C10
//@   modifies nothing
//@   ensures [C02:sync-writes-go-through-the-checked-stack-not-the-bare-database] err == nil ==> m != nil && m.store == c.Store
//@   ensures [C10:sync-manager-writes-to-the-store-it-is-given] err == nil ==> m != nil && m.store == c.Store && m.insecureStore == c.BoltdbStore && m.info == c.Info && m.client == c.Client && m.clock == c.Clock && m.nodeAddr == c.NodeAddr

//@ func newChainStore(ctx, l, cf, cl, v, store, t) (cs, err)
//@   props C02
//@   requires [wf] cf != nil && cf.Group != nil && cf.Group.Scheme != nil && v != nil
//@   call NewCallbackStore#0: assert [C02:callbacks-sit-on-the-append-layer-over-the-scheme-layer] typeis(arg1, "*appendStore") && typeis(as(arg1, "*appendStore").Store, "*schemeStore")
//@   call NewCallbackStore#0: assert [C02:scheme-layer-over-timing-layer-over-the-database] typeis(as(as(arg1, "*appendStore").Store, "*schemeStore").Store, "*discrepancyStore") && as(as(as(arg1, "*appendStore").Store, "*schemeStore").Store, "*discrepancyStore").Store == store
//@   call NewSyncManager#0: assert [C02:sync-writes-through-the-same-stack] typeis(arg1.Store, "*callbackStore") && typeis(as(arg1.Store, "*callbackStore").Store, "*appendStore") && arg1.BoltdbStore == store
//@   ensures [C02:aggregator-store-is-the-callback-layer] err == nil ==> cs != nil && typeis(cs.CallbackStore, "*callbackStore") && cs.syncm != nil && cs.syncm.store == cs.CallbackStore
