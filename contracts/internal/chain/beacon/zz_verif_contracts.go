//go:build verif

// Contracts for package beacon. Comment-only file: adds no code.
// Read by /verif/govc; see /verif/DESIGN.md §4.

package beacon

// ---- abstract view of a chain.Store (ghost state keyed by the store value) ----
//
// stored(s, r)  : round r is present in store s
// sigOf(s, r)   : signature stored for round r;  prevOf(s, r): previous signature stored for round r

//@ ghostfield stored(ref, int) bool
//@ ghostfield sigOf(ref, int) bytes
//@ ghostfield prevOf(ref, int) bytes
// lowerLayer(s): s is one of the layers below the append store (scheme / discrepancy / raw back-end), none of which
// reports ErrBeaconAlreadyStored. This is an assumption about how newChainStore stacks the layers (listed in evidence).
//@ ghost lowerLayer(ref) bool

//@ iface (github.com/drand/drand/v2/internal/chain.Store).Put(s, ctx, b) (err)
//@   trusted abstract map contract of a store layer (the concrete back-ends are verified against the same shape under C18): a successful Put records b under b.Round, other stored rounds keep their value, nothing new appears, a failed Put changes nothing; the only beacon field a layer may change is PreviousSig (cleared by schemeStore on unchained schemes)
//@   modifies stored(s), sigOf(s), prevOf(s), b.PreviousSig
//@   ensures err == nil ==> stored(s, b.Round) && sigOf(s, b.Round) == b.Signature && prevOf(s, b.Round) == b.PreviousSig
//@   ensures forall r int :: r != b.Round && stored(s, r) ==> old(stored(s, r)) && sigOf(s, r) == old(sigOf(s, r)) && prevOf(s, r) == old(prevOf(s, r))
//@   ensures err != nil ==> (forall r int :: stored(s, r) == old(stored(s, r)) && sigOf(s, r) == old(sigOf(s, r)) && prevOf(s, r) == old(prevOf(s, r)))
//@   ensures b.PreviousSig == old(b.PreviousSig) || b.PreviousSig == nil
//@   ensures is(err, ErrBeaconAlreadyStored) ==> stored(s, b.Round) && bytesEq(sigOf(s, b.Round), b.Signature)
//@   ensures lowerLayer(s) ==> !is(err, ErrBeaconAlreadyStored)

//@ iface (github.com/drand/drand/v2/internal/chain.Store).Last(s, ctx) (b, err)
//@   trusted Last returns a beacon that is stored (head of the view) or an error
//@   modifies nothing
//@   ensures err == nil ==> b != nil && stored(s, b.Round) && sigOf(s, b.Round) == b.Signature && prevOf(s, b.Round) == b.PreviousSig
//@   ensures err == nil ==> (forall r int :: stored(s, r) ==> r <= b.Round)

// ---- C02: append-only, gap-free ------------------------------------------------

//@ func newAppendStore(ctx, s) (res, err)
//@   props C02
//@   modifies nothing
//@   ensures [C02:append-store-starts-at-head] err == nil ==> typeis(res, "*appendStore") && as(res, "*appendStore").last != nil && as(res, "*appendStore").Store == s
//@   ensures [C02:append-store-last-is-stored-head] err == nil ==> stored(s, as(res, "*appendStore").last.Round) && (forall r int :: stored(s, r) ==> r <= as(res, "*appendStore").last.Round)

//@ func (*appendStore).Put(a, ctx, b) (err)
//@   props C02
//@   flags lockcheck
//@   requires b != nil && a.last != nil && a.last.Round < 18446744073709551615
//@   requires lowerLayer(a.Store)
//@   requires stored(a.Store, a.last.Round) && sigOf(a.Store, a.last.Round) == a.last.Signature
//@   modifies a.last, stored(a.Store), sigOf(a.Store), prevOf(a.Store), b.PreviousSig
//@   ensures [C02:last-is-stored-invariant] stored(a.Store, a.last.Round) && sigOf(a.Store, a.last.Round) == a.last.Signature
//@   ensures [C02:already-stored-means-present] is(err, ErrBeaconAlreadyStored) ==> stored(a.Store, b.Round) && bytesEq(sigOf(a.Store, b.Round), b.Signature)
//@   ensures [C02:only-last-plus-one-accepted] err == nil ==> b.Round == old(a.last.Round) + 1
//@   ensures [C02:last-tracks-head] err == nil ==> a.last == b
//@   ensures [C02:stored-on-success] err == nil ==> stored(a.Store, b.Round) && sigOf(a.Store, b.Round) == b.Signature && prevOf(a.Store, b.Round) == b.PreviousSig
//@   ensures [C02:error-leaves-last] err != nil ==> a.last == old(a.last)
//@   ensures [C02:never-replaces-or-invents-other-rounds] forall r int :: r != old(a.last.Round) + 1 && stored(a.Store, r) ==> old(stored(a.Store, r)) && sigOf(a.Store, r) == old(sigOf(a.Store, r)) && prevOf(a.Store, r) == old(prevOf(a.Store, r))
//@   ensures [C02:rejected-put-writes-nothing] b.Round != old(a.last.Round) + 1 ==> err != nil && (forall r int :: stored(a.Store, r) == old(stored(a.Store, r)) && sigOf(a.Store, r) == old(sigOf(a.Store, r)) && prevOf(a.Store, r) == old(prevOf(a.Store, r)))
//@   ensures [C02:already-stored-only-if-identical] is(err, ErrBeaconAlreadyStored) ==> b.Round == old(a.last.Round) && bytesEq(old(a.last.Signature), b.Signature) && bytesEq(old(a.last.PreviousSig), b.PreviousSig)
//@   ensures [C02:same-round-different-value-is-an-error] b.Round == old(a.last.Round) && !(bytesEq(old(a.last.Signature), b.Signature) && bytesEq(old(a.last.PreviousSig), b.PreviousSig)) ==> err != nil && !is(err, ErrBeaconAlreadyStored)

//@ func NewSchemeStore(ctx, s, sch) (res, err)
//@   props C02
//@   requires sch != nil
//@   modifies nothing
//@   ensures [C02:chained-iff-default-scheme] err == nil ==> typeis(res, "*schemeStore") && (as(res, "*schemeStore").isChained <==> sch.Name == crypto.DefaultSchemeID)
//@   ensures [C02:scheme-store-starts-at-head] err == nil ==> as(res, "*schemeStore").last != nil && as(res, "*schemeStore").Store == s && stored(s, as(res, "*schemeStore").last.Round)

//@ func (*schemeStore).Put(a, ctx, b) (err)
//@   props C02
//@   flags lockcheck
//@   requires b != nil && a.last != nil
//@   modifies a.last, stored(a.Store), sigOf(a.Store), prevOf(a.Store), b.PreviousSig
//@   ensures [C02:chained-link-enforced] a.isChained && err == nil ==> bytesEq(old(a.last.Signature), old(b.PreviousSig))
//@   ensures [C02:chained-link-mismatch-writes-nothing] a.isChained && !bytesEq(old(a.last.Signature), old(b.PreviousSig)) ==> err != nil && (forall r int :: stored(a.Store, r) == old(stored(a.Store, r)) && sigOf(a.Store, r) == old(sigOf(a.Store, r)))
//@   ensures [C02:unchained-strips-previous] !a.isChained && err == nil ==> b.PreviousSig == nil && prevOf(a.Store, b.Round) == nil
//@   ensures [C02:scheme-last-only-on-success] (err == nil ==> a.last == b) && (err != nil ==> a.last == old(a.last))
//@   ensures [C02:scheme-stored-on-success] err == nil ==> stored(a.Store, b.Round) && sigOf(a.Store, b.Round) == b.Signature

//@ func (*chainStore).tryAppend(c, ctx, last, newB) (ok)
//@   props C02
//@   requires last != nil && newB != nil && last.Round < 18446744073709551615
//@   ensures [C02:aggregator-appends-only-last-plus-one] ok ==> newB.Round == last.Round + 1
//@   ensures [C02:aggregator-success-means-stored-or-identical] ok ==> stored(c.CallbackStore, newB.Round) && bytesEq(sigOf(c.CallbackStore, newB.Round), newB.Signature)
//@   call Put#0: assert [C02:aggregator-put-only-next-round] newB.Round == last.Round + 1

// ---- C01 / C10: sync stores only verified beacons -------------------------------

//@ func protoToBeacon(p) (b)
//@   props C01 C20
//@   modifies nothing
//@   ensures [C20:proto-to-beacon-fieldwise] b != nil && (p != nil ==> b.Round == p.Round && b.Signature == p.Signature && b.PreviousSig == p.PreviousSignature)

//@ func beaconToProto(b, beaconID) (p)
//@   props C01 C20
//@   requires b != nil
//@   modifies nothing
//@   ensures [C20:beacon-to-proto-fieldwise] p != nil && p.Round == b.Round && p.Signature == b.Signature && p.PreviousSignature == b.PreviousSig && p.Metadata != nil && p.Metadata.BeaconID == beaconID

//@ func (*SyncManager).tryNode(s, global, from, upTo, peer) (ok)
//@   props C01 C10
//@   requires s.info != nil && s.scheme != nil && common.validPeriod(s.info.Period) && common.validGenesis(s.info.GenesisTime)
//@   call Put#0: assert [C01:resync-stores-only-verified-beacons] arg2 != nil && crypto.validSig(s.info.PublicKey, crypto.digestOf(s.scheme, arg2.Round, arg2.PreviousSig), arg2.Signature)
//@   call Put#1: assert [C01:sync-stores-only-verified-beacons] arg2 != nil && crypto.validSig(s.info.PublicKey, crypto.digestOf(s.scheme, arg2.Round, arg2.PreviousSig), arg2.Signature)
//@   call Put#0: assert [C10:resync-writes-only-the-requested-rounds] from <= arg2.Round && arg2.Round <= upTo

//@ iface (github.com/drand/drand/v2/internal/net.ProtocolClient).SyncChain(c, ctx, p, in) (ch, err)
//@   trusted gRPC client stub: opens a stream to a peer; touches no node state
//@   modifies nothing
//@ iface (github.com/drand/drand/v2/internal/net.ProtocolClient).PartialBeacon(c, ctx, p, in) (err)
//@   trusted gRPC client stub
//@   modifies nothing
