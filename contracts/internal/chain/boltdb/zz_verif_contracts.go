//go:build verif

// Contracts for package boltdb. Comment-only file: adds no code.
// Read by /verif/govc; see /verif/DESIGN.md §4.

package boltdb

// ---- abstract view of a bbolt bucket: a map from key bytes to value bytes (bbolt itself is assumed) ----
//@ ghost hasKey(ref, bytes) bool
//@ ghost kvVal(ref, bytes) bytes
//@ ghost bucketOf(ref) ref
//@ axiom kv-respects-content: forall b ref, k1 bytes, k2 bytes {hasKey(b, k1), hasKey(b, k2)} :: bytesEq(k1, k2) ==> hasKey(b, k1) == hasKey(b, k2) && kvVal(b, k1) == kvVal(b, k2)

//@ extern (*go.etcd.io/bbolt.Bucket).Get(bk, key) (v)
//@   trusted bbolt: Get returns the stored value or nil
//@   modifies nothing
//@   ensures (v == nil <==> !hasKey(bk, key)) && (v != nil ==> v == kvVal(bk, key))

//@ extern (*go.etcd.io/bbolt.Cursor).Bucket(c) (bk)
//@   trusted bbolt accessor
//@   modifies nothing
//@   ensures bk == bucketOf(c) && bk != nil

//@ extern (*go.etcd.io/bbolt.Cursor).Seek(c, seek) (k, v)
//@   trusted bbolt: Seek positions on the first key >= seek (byte-lexicographic) and returns that pair, or nil at the end; every key of the beacon bucket is an 8-byte round key (the bucket is only written through RoundToBytes)
//@   modifies nothing
//@   ensures (k == nil ==> v == nil) && (k != nil ==> len(k) == 8 && hasKey(bucketOf(c), k) && v == kvVal(bucketOf(c), k) && v != nil) && (hasKey(bucketOf(c), seek) ==> k != nil && bytesEq(k, seek))
//@   ensures len(seek) == 8 && k == nil ==> (forall r uint64 {chain.be64(r)} :: r >= chain.rd64(seek) ==> !hasKey(bucketOf(c), chain.be64(r)))

// ---- C18: trimmed bolt back-end ---------------------------------------------------------------------

// labelled(bk, b): beacon b carries the data stored under its own round
//@ pred labelled(bk, b) := b != nil && hasKey(bk, chain.be64(b.Round)) && bytesEq(b.Signature, kvVal(bk, chain.be64(b.Round)))
//@ pred prevLinked(bk, b) := b.Round > 0 ==> hasKey(bk, chain.be64(b.Round - 1)) && bytesEq(b.PreviousSig, kvVal(bk, chain.be64(b.Round - 1)))

//@ func (*trimmedStore).getBeacon(t, ctx, bucket, round, canFetchPrevious) (b, err)
//@   props C18
//@   requires t.log != nil
//@   modifies nothing
//@   ensures [C18:trimmed-get-returns-the-data-of-that-round] err == nil ==> b.Round == round && labelled(bucket, b)
//@   ensures [C18:trimmed-get-reconstructs-previous-from-round-minus-one-or-fails] err == nil && canFetchPrevious && t.requiresPrevious ==> prevLinked(bucket, b)
//@   ensures [C18:trimmed-get-missing-round-is-an-error] !hasKey(bucket, chain.be64(round)) ==> err != nil

//@ paramfunc (*trimmedStore).getCursorBeacon.get() (key, value)
//@   trusted bound bolt.Cursor method (First / Next / Last) of a cursor over `bucket`: returns a stored pair or nil
//@   modifies nothing
//@   ensures key == nil || (len(key) == 8 && hasKey(bucket, key) && value == kvVal(bucket, key))

//@ func (*trimmedStore).getCursorBeacon(t, ctx, bucket, get) (b, err)
//@   props C18 C11
//@   requires t.log != nil
//@   modifies nothing
//@   ensures [C18:trimmed-cursor-beacon-is-labelled-with-its-own-round] err == nil ==> labelled(bucket, b)
//@   ensures [C18:trimmed-cursor-previous-is-round-minus-one-or-fails] err == nil && t.requiresPrevious ==> prevLinked(bucket, b)

//@ func (*trimmedBoltCursor).Seek(c, ctx, round) (b, err)
//@   props C18 C11
//@   requires c.store != nil && c.store.log != nil && c.Cursor != nil
//@   modifies nothing
//@   ensures [C18:trimmed-seek-never-mislabels] err == nil ==> labelled(bucketOf(c.Cursor), b)
//@   ensures [C18:trimmed-seek-of-a-stored-round-returns-that-round] err == nil && hasKey(bucketOf(c.Cursor), chain.be64(round)) ==> b.Round == round
//@   ensures [C18:trimmed-seek-previous-is-round-minus-one-or-fails] err == nil && c.store.requiresPrevious ==> prevLinked(bucketOf(c.Cursor), b)
// C11: the catch-up scan of a stream starts with Seek(from): when rounds at or after `from` are stored, the scan must find
// the first of them (a "nothing stored" answer makes the stream skip everything that is stored and go live). Stated for
// the layout without previous signatures (with them, a missing predecessor is also reported as "nothing stored").
//@   ensures [C11,C18:trimmed-seek-reports-nothing-stored-only-when-nothing-is-stored-at-or-after-the-round] !c.store.requiresPrevious && is(err, errors.ErrNoBeaconStored) ==> (forall r uint64 {chain.be64(r)} :: r >= round ==> !hasKey(bucketOf(c.Cursor), chain.be64(r)))

// ---- C13: one bolt transaction per stored beacon (atomicity of a transaction is bbolt's, assumed) --------------------
//@ func (*trimmedStore).Put(b, ctx, beacon) (err)
//@   props C13
//@   ensures [C13:a-beacon-is-stored-by-at-most-one-transaction] ntx(b.db) == old(ntx(b.db)) || ntx(b.db) == old(ntx(b.db)) + 1

//@ func (*trimmedStore).Put$1(tx) (err)
//@   props C13 C18
//@   requires nput(tx) == 0 && beacon != nil
//@   ensures [C13,C18:the-transaction-writes-exactly-the-signature-under-the-round-key] err == nil ==> nput(tx) == 1 && bytesEq(putKey(tx, beaconBucket), chain.be64(beacon.Round)) && bytesEq(putVal(tx, beaconBucket), beacon.Signature)

//@ func (*BoltStore).Put(b, ctx, beacon) (err)
//@   props C13
//@   ensures [C13:a-beacon-is-stored-by-at-most-one-transaction] ntx(b.db) == old(ntx(b.db)) || ntx(b.db) == old(ntx(b.db)) + 1

//@ func (*BoltStore).Put$1(tx) (err)
//@   props C13 C18
//@   requires nput(tx) == 0 && beacon != nil
//@   ensures [C13:the-transaction-writes-one-record-under-the-round-key] err == nil ==> nput(tx) == 1 && bytesEq(putKey(tx, beaconBucket), chain.be64(beacon.Round))
//@   ensures [C18:the-record-written-decodes-to-the-beacon-of-its-key] err == nil ==> jsRound(putVal(tx, beaconBucket)) == beacon.Round && bytesEq(jsSig(putVal(tx, beaconBucket)), beacon.Signature) && bytesEq(jsPrev(putVal(tx, beaconBucket)), beacon.PreviousSig)

// ---- C18: untrimmed bolt back-end: a value is the JSON encoding of the whole beacon ----------------------------------------
// jsRound / jsSig / jsPrev: what decoding a stored value yields (encoding/json assumed: decoding is a function of the bytes
// and decoding an encoding gives the value back). jsonBucketInv: every value decodes to a beacon of the round its key
// encodes: established by Put (its transaction writes Marshal(beacon) under RoundToBytes(beacon.Round), checked below), which
// is the only writer of the bucket besides Del.
//@ ghost jsRound(bytes) int
//@ ghost jsSig(bytes) bytes
//@ ghost jsPrev(bytes) bytes
//@ extern (*github.com/drand/drand/v2/common.Beacon).Unmarshal(b, buff) (err)
//@   trusted encoding/json: decoding is a function of the bytes
//@   modifies b.Round, b.Signature, b.PreviousSig
//@   ensures err == nil ==> b.Round == jsRound(buff) && b.Signature == jsSig(buff) && b.PreviousSig == jsPrev(buff)
//@ extern (*github.com/drand/drand/v2/common.Beacon).Marshal(b) (r, err)
//@   trusted encoding/json: decoding the encoding of a beacon gives the beacon back
//@   modifies nothing
//@   ensures err == nil ==> jsRound(r) == b.Round && bytesEq(jsSig(r), b.Signature) && bytesEq(jsPrev(r), b.PreviousSig)
//@ pred jsonBucketInv(bk) := forall k bytes {hasKey(bk, k)} :: hasKey(bk, k) ==> jsRound(kvVal(bk, k)) == chain.rd64(k)
//@ pred jsLabelled(bk, b) := b != nil && hasKey(bk, chain.be64(b.Round)) && b.Signature == jsSig(kvVal(bk, chain.be64(b.Round))) && b.PreviousSig == jsPrev(kvVal(bk, chain.be64(b.Round)))

//@ extern (*go.etcd.io/bbolt.Cursor).First(c) (k, v)
//@   trusted bbolt: first pair of the bucket or nil; keys of the beacon bucket are 8-byte round keys
//@   modifies nothing
//@   ensures (k == nil ==> v == nil) && (k != nil ==> len(k) == 8 && hasKey(bucketOf(c), k) && v == kvVal(bucketOf(c), k) && v != nil)
//@ extern (*go.etcd.io/bbolt.Cursor).Next(c) (k, v)
//@   trusted bbolt: next pair in key order or nil
//@   modifies nothing
//@   ensures (k == nil ==> v == nil) && (k != nil ==> len(k) == 8 && hasKey(bucketOf(c), k) && v == kvVal(bucketOf(c), k) && v != nil)
//@ extern (*go.etcd.io/bbolt.Cursor).Last(c) (k, v)
//@   trusted bbolt: last pair of the bucket or nil
//@   modifies nothing
//@   ensures (k == nil ==> v == nil) && (k != nil ==> len(k) == 8 && hasKey(bucketOf(c), k) && v == kvVal(bucketOf(c), k) && v != nil)

//@ func (*boltCursor).First(c, ctx) (b, err)
//@   props C18
//@   requires c.Cursor != nil && jsonBucketInv(bucketOf(c.Cursor))
//@   ensures [C18:bolt-cursor-beacon-carries-the-data-stored-under-its-own-round] err == nil ==> jsLabelled(bucketOf(c.Cursor), b)
//@ func (*boltCursor).Next(c, ctx) (b, err)
//@   props C18
//@   requires c.Cursor != nil && jsonBucketInv(bucketOf(c.Cursor))
//@   ensures [C18:bolt-cursor-beacon-carries-the-data-stored-under-its-own-round] err == nil ==> jsLabelled(bucketOf(c.Cursor), b)
//@ func (*boltCursor).Last(c, ctx) (b, err)
//@   props C18
//@   requires c.Cursor != nil && jsonBucketInv(bucketOf(c.Cursor))
//@   ensures [C18:bolt-cursor-beacon-carries-the-data-stored-under-its-own-round] err == nil ==> jsLabelled(bucketOf(c.Cursor), b)
//@ func (*boltCursor).Seek(c, ctx, round) (b, err)
//@   props C18 C11
//@   requires c.Cursor != nil && jsonBucketInv(bucketOf(c.Cursor))
//@   ensures [C18:bolt-cursor-beacon-carries-the-data-stored-under-its-own-round] err == nil ==> jsLabelled(bucketOf(c.Cursor), b)
//@   ensures [C18:bolt-seek-of-a-stored-round-returns-that-round] err == nil && hasKey(bucketOf(c.Cursor), chain.be64(round)) ==> b.Round == round
//@   ensures [C11,C18:bolt-seek-reports-nothing-stored-only-when-nothing-is-stored-at-or-after-the-round] b == nil && is(err, errors.ErrNoBeaconStored) ==> (forall r uint64 {chain.be64(r)} :: r >= round ==> !hasKey(bucketOf(c.Cursor), chain.be64(r)))

//@ extern (*go.etcd.io/bbolt.Bucket).Cursor(bk) (c)
//@   trusted bbolt: a cursor over that bucket; the receiver is dereferenced (Bucket.Cursor reads b.tx)
//@   requires bk != nil
//@   modifies nothing
//@   ensures c != nil && bucketOf(c) == bk

// Get / Last read inside one read-only transaction; the closure decodes the value found under the round key (Get) or the
// last pair (Last) into the beacon the outer function returns.
//@ func (*BoltStore).Get$1(tx) (err)
//@   props C18
//@   modifies beacon.Round, beacon.Signature, beacon.PreviousSig
//@   requires beacon != nil && txBucket(tx, beaconBucket) != nil && jsonBucketInv(txBucket(tx, beaconBucket))
//@   ensures [C18:bolt-get-decodes-the-value-stored-under-the-requested-round] err == nil ==> beacon.Round == round && jsLabelled(txBucket(tx, beaconBucket), beacon)
//@   ensures [C18:bolt-get-of-a-missing-round-is-an-error] !hasKey(txBucket(tx, beaconBucket), chain.be64(round)) ==> err != nil
//@ func (*BoltStore).Get(b, ctx, round) (res, err)
//@   props C18
//@   requires b.db != nil
//@   ensures [C18:bolt-get-returns-exactly-the-requested-round] err == nil ==> res != nil && res.Round == round

//@ func (*BoltStore).Last$1(tx) (err)
//@   props C18
//@   modifies beacon.Round, beacon.Signature, beacon.PreviousSig
//@   requires beacon != nil && txBucket(tx, beaconBucket) != nil && jsonBucketInv(txBucket(tx, beaconBucket))
//@   ensures [C18:bolt-last-decodes-a-stored-value-of-its-own-round] err == nil ==> jsLabelled(txBucket(tx, beaconBucket), beacon)

// ---- C13: opening an existing database file that a crash left without the beacon bucket must not panic the restart ---------
// (bolt.Open creates the file, a separate transaction creates the bucket: a process death in between leaves a valid
// database without it; Tx.Bucket then returns nil)
//@ func shouldUseTrimmedBolt$2(tx) (err)
//@   props C13
