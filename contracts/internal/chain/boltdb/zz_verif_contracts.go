//go:build verif

// Contracts for package boltdb. Comment-only file: adds no code.
// Read by /verif/govc; see /verif/DESIGN.md §4.

package boltdb

// ---- abstract view of a bbolt bucket: a map from key bytes to value bytes (bbolt itself is assumed) ----
//@ ghost hasKey(ref, bytes) bool
//@ ghost kvVal(ref, bytes) bytes
//@ ghost bucketOf(ref) ref
//@ axiom kv-respects-content: forall b ref, k1 bytes, k2 bytes {hasKey(b, k1), hasKey(b, k2)} :: bytesEq(k1, k2) ==> hasKey(b, k1) == hasKey(b, k2) && kvVal(b, k1) == kvVal(b, k2)

//@ extern (*go.etcd.io/bbolt.Bucket).Get(bk, key) (v)
//@   trusted bbolt: Get returns the stored value or nil
//@   modifies nothing
//@   ensures (v == nil <==> !hasKey(bk, key)) && (v != nil ==> v == kvVal(bk, key))

//@ extern (*go.etcd.io/bbolt.Cursor).Bucket(c) (bk)
//@   trusted bbolt accessor
//@   modifies nothing
//@   ensures bk == bucketOf(c) && bk != nil

//@ extern (*go.etcd.io/bbolt.Cursor).Seek(c, seek) (k, v)
//@   trusted bbolt: Seek positions on the first key >= seek (byte-lexicographic) and returns that pair, or nil at the end; every key of the beacon bucket is an 8-byte round key (the bucket is only written through RoundToBytes)
//@   modifies nothing
//@   ensures (k == nil ==> v == nil) && (k != nil ==> len(k) == 8 && hasKey(bucketOf(c), k) && v == kvVal(bucketOf(c), k) && v != nil) && (hasKey(bucketOf(c), seek) ==> k != nil && bytesEq(k, seek))

// ---- C18: trimmed bolt back-end ---------------------------------------------------------------------

// labelled(bk, b): beacon b carries the data stored under its own round
//@ pred labelled(bk, b) := b != nil && hasKey(bk, chain.be64(b.Round)) && bytesEq(b.Signature, kvVal(bk, chain.be64(b.Round)))
//@ pred prevLinked(bk, b) := b.Round > 0 ==> hasKey(bk, chain.be64(b.Round - 1)) && bytesEq(b.PreviousSig, kvVal(bk, chain.be64(b.Round - 1)))

//@ func (*trimmedStore).getBeacon(t, ctx, bucket, round, canFetchPrevious) (b, err)
//@   props C18
//@   requires t.log != nil
//@   modifies nothing
//@   ensures [C18:trimmed-get-returns-the-data-of-that-round] err == nil ==> b.Round == round && labelled(bucket, b)
//@   ensures [C18:trimmed-get-reconstructs-previous-from-round-minus-one-or-fails] err == nil && canFetchPrevious && t.requiresPrevious ==> prevLinked(bucket, b)
//@   ensures [C18:trimmed-get-missing-round-is-an-error] !hasKey(bucket, chain.be64(round)) ==> err != nil

//@ paramfunc (*trimmedStore).getCursorBeacon.get() (key, value)
//@   trusted bound bolt.Cursor method (First / Next / Last) of a cursor over `bucket`: returns a stored pair or nil
//@   modifies nothing
//@   ensures key == nil || (len(key) == 8 && hasKey(bucket, key) && value == kvVal(bucket, key))

//@ func (*trimmedStore).getCursorBeacon(t, ctx, bucket, get) (b, err)
//@   props C18 C11
//@   requires t.log != nil
//@   modifies nothing
//@   ensures [C18:trimmed-cursor-beacon-is-labelled-with-its-own-round] err == nil ==> labelled(bucket, b)
//@   ensures [C18:trimmed-cursor-previous-is-round-minus-one-or-fails] err == nil && t.requiresPrevious ==> prevLinked(bucket, b)

//@ func (*trimmedBoltCursor).Seek(c, ctx, round) (b, err)
//@   props C18 C11
//@   requires c.store != nil && c.store.log != nil && c.Cursor != nil
//@   modifies nothing
//@   ensures [C18:trimmed-seek-never-mislabels] err == nil ==> labelled(bucketOf(c.Cursor), b)
//@   ensures [C18:trimmed-seek-of-a-stored-round-returns-that-round] err == nil && hasKey(bucketOf(c.Cursor), chain.be64(round)) ==> b.Round == round
//@   ensures [C18:trimmed-seek-previous-is-round-minus-one-or-fails] err == nil && c.store.requiresPrevious ==> prevLinked(bucketOf(c.Cursor), b)

// ---- C13: one bolt transaction per stored beacon (atomicity of a transaction is bbolt's, assumed) --------------------
//@ func (*trimmedStore).Put(b, ctx, beacon) (err)
//@   props C13
//@   ensures [C13:a-beacon-is-stored-by-at-most-one-transaction] ntx(b.db) == old(ntx(b.db)) || ntx(b.db) == old(ntx(b.db)) + 1

//@ func (*trimmedStore).Put$1(tx) (err)
//@   props C13 C18
//@   requires nput(tx) == 0 && beacon != nil
//@   ensures [C13,C18:the-transaction-writes-exactly-the-signature-under-the-round-key] err == nil ==> nput(tx) == 1 && bytesEq(putKey(tx, beaconBucket), chain.be64(beacon.Round)) && bytesEq(putVal(tx, beaconBucket), beacon.Signature)

//@ func (*BoltStore).Put(b, ctx, beacon) (err)
//@   props C13
//@   ensures [C13:a-beacon-is-stored-by-at-most-one-transaction] ntx(b.db) == old(ntx(b.db)) || ntx(b.db) == old(ntx(b.db)) + 1

//@ func (*BoltStore).Put$1(tx) (err)
//@   props C13
//@   requires nput(tx) == 0 && beacon != nil
//@   ensures [C13:the-transaction-writes-one-record-under-the-round-key] err == nil ==> nput(tx) == 1 && bytesEq(putKey(tx, beaconBucket), chain.be64(beacon.Round))
