//go:build verif

// Contracts for package fs. Comment-only file: adds no code.

package fs

//@ field chmodFunc(name, mode) (err)
//@   trusted package variable initialised to os.Chmod (tests may replace it; the daemon never does)
//@   modifies fmode(name)
//@   ensures err == nil ==> fmode(name) == mode
//@   ensures err != nil ==> fmode(name) == old(fmode(name)) && osRefuses(name)

// ---- C15: every file that holds a private key or share is readable by its owner only -------------------
//@ func CreateSecureFile(file) (f, err)
//@   props C15 C13
//@   modifies fexists(file), fmode(file), fcontent(file)
//@   ensures [C15:secure-file-is-owner-only] err == nil ==> f != nil && pathOf(f) == file && fexists(file) && fmode(file) == 384
//@   ensures [C15:secure-file-is-empty-until-its-mode-is-set] err == nil ==> fcontent(file) == nil
//@   ensures [C13:a-leftover-file-of-that-name-is-no-reason-for-the-creation-to-fail] err != nil ==> osRefuses(file)
//@   call OpenFile#0: assert [C15:mode-set-before-the-file-is-handed-out] fexists(file) && fmode(file) == 384 && fcontent(file) == nil
//@ lemma [C15] secret-file-mode-has-no-group-or-other-bits: 384 == 256 + 128 && rwFilePermission == 384
