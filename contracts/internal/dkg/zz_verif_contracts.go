//go:build verif

// Contracts for package dkg. Comment-only file: adds no code.
// Read by /verif/govc; see /verif/DESIGN.md §4.

package dkg

// ---- C08: DKG state machine ------------------------------------------------
//
// legal(c, n): the protocol's transition relation (written out once here; the lemmas below pin down the
// facts the property statement relies on, independently of the table's exact shape).

//@ pred legal(c, n) := (c == Fresh && (n == Proposing || n == Proposed)) \
//@ \ || (c == Joined && (n == Left || n == Executing || n == Aborted || n == TimedOut)) \
//@ \ || (c == Proposing && (n == Executing || n == Aborted || n == TimedOut)) \
//@ \ || (c == Proposed && (n == Accepted || n == Rejected || n == Joined || n == Left || n == Aborted || n == TimedOut)) \
//@ \ || (c == Accepted && (n == Executing || n == Aborted || n == TimedOut)) \
//@ \ || (c == Rejected && (n == Aborted || n == TimedOut)) \
//@ \ || (c == Executing && (n == Complete || n == TimedOut || n == Failed)) \
//@ \ || (c == Complete && (n == Proposing || n == Proposed)) \
//@ \ || (c == Left && (n == Joined || n == Aborted || n == Proposed)) \
//@ \ || (c == Aborted && (n == Proposing || n == Proposed)) \
//@ \ || (c == TimedOut && (n == Proposing || n == Proposed || n == Aborted)) \
//@ \ || (c == Failed && (n == Proposing || n == Proposed || n == Left || n == Aborted))
// package-level table of terminal states (declared as a slice literal and never reassigned: checked by grep in setup)
//@ axiom terminalStates-content: len(terminalStates) == 3 && terminalStates[0] == Aborted && terminalStates[1] == TimedOut && terminalStates[2] == Failed
//@ pred isStatus(s) := 0 <= s && s <= 11
//@ pred terminal(s) := s == Aborted || s == TimedOut || s == Failed

//@ lemma [C08] complete-only-from-executing: forall c int, n int :: isStatus(c) && legal(c, Complete) ==> c == Executing
//@ lemma [C08] executing-leaves-only-to-complete-timeout-failed: forall n int :: legal(Executing, n) ==> n == Complete || n == TimedOut || n == Failed
//@ lemma [C08] terminal-states-restart-or-abort-or-leave: forall c int, n int :: terminal(c) && legal(c, n) ==> n == Proposing || n == Proposed || n == Aborted || n == Left
//@ lemma [C08] executing-only-after-agreement: forall c int :: legal(c, Executing) ==> c == Joined || c == Proposing || c == Accepted
//@ lemma [C08] no-self-loop: forall c int :: isStatus(c) ==> !legal(c, c)

//@ func isValidStateChange(current, next) (r)
//@   props C08
//@   modifies nothing
//@   ensures [C08:transition-table] r <==> legal(current, next)

//@ func (Status).String(s) (r)
//@   props C08
//@   modifies nothing

//@ func InvalidStateChange(from, to) (err)
//@   props C08
//@   modifies nothing
//@   ensures [C08:invalid-transition-is-an-error] err != nil

// expired(d): the deadline of the attempt recorded in d has passed. Introduced by definition at hasTimedOut's return
// (assumption: the clock does not cross the deadline between two reads inside one mutator call).
//@ ghost expired(ref) bool
//@ func hasTimedOut(details) (r)
//@   props C08
//@   modifies nothing
//@   defines r <==> expired(details)

//@ func isProposalPhase(d) (r)
//@   props C08
//@   modifies nothing
//@   ensures [C08:proposal-phase] r <==> (d.State == Proposing || d.State == Proposed || d.State == Accepted || d.State == Rejected || d.State == Joined)

// Every mutator: on success the state moved along a legal edge (or stayed, for the two Received* methods),
// epoch and beacon id are untouched; on error nothing of the record changed and no state is returned.
//@ pred sameRecord(d) := d.State == old(d.State) && d.Epoch == old(d.Epoch) && d.BeaconID == old(d.BeaconID) && d.FinalGroup == old(d.FinalGroup) && d.KeyShare == old(d.KeyShare) && d.Acceptors == old(d.Acceptors) && d.Rejectors == old(d.Rejectors) && d.Threshold == old(d.Threshold) && d.GenesisSeed == old(d.GenesisSeed)
//@ pred movedLegally(d, res, target) := res == d && d.State == target && legal(old(d.State), target) && d.Epoch == old(d.Epoch) && d.BeaconID == old(d.BeaconID)

//@ func (*DBState).TimedOut(d) (res, err)
//@   props C08
//@   modifies d.State
//@   ensures [C08:TimedOut-legal] err == nil ==> movedLegally(d, res, TimedOut)
//@   ensures [C08:TimedOut-error-keeps-record] err != nil ==> res == nil && sameRecord(d)

//@ func (*DBState).StartAbort(d) (res, err)
//@   props C08
//@   modifies d.State
//@   ensures [C08:StartAbort-legal] err == nil ==> movedLegally(d, res, Aborted)
//@   ensures [C08:StartAbort-error-keeps-record] err != nil ==> res == nil && sameRecord(d)

//@ func (*DBState).Aborted(d, metadata) (res, err)
//@   props C08 C09
//@   modifies d.State
//@   ensures [C08:Aborted-legal] err == nil ==> movedLegally(d, res, Aborted)
//@   ensures [C08:Aborted-error-keeps-record] err != nil ==> res == nil && sameRecord(d)
//@   ensures [C09:only-leader-aborts-remotely] err == nil ==> metadata.Address == old(d.Leader.Address)

//@ func (*DBState).Failed(d) (res, err)
//@   props C08
//@   modifies d.State
//@   ensures [C08:Failed-legal] err == nil ==> movedLegally(d, res, Failed)
//@   ensures [C08:Failed-only-from-executing] err == nil ==> old(d.State) == Executing
//@   ensures [C08:Failed-error-keeps-record] err != nil ==> res == nil && sameRecord(d)

//@ func (*DBState).Left(d, me) (res, err)
//@   props C08
//@   modifies d.State
//@   ensures [C08:Left-legal] err == nil ==> movedLegally(d, res, Left)
//@   ensures [C08:Left-error-keeps-record] err != nil ==> res == nil && sameRecord(d)
//@   ensures [C08:a-time-expired-Left-is-rejected] expired(d) ==> err != nil

//@ func (*DBState).Joined(d, me, previousGroup) (res, err)
//@   props C08
//@   modifies d.State, d.FinalGroup
//@   ensures [C08:Joined-legal] err == nil ==> movedLegally(d, res, Joined) && d.FinalGroup == previousGroup
//@   ensures [C08:Joined-error-keeps-record] err != nil ==> res == nil && sameRecord(d)
//@   ensures [C08:a-time-expired-Joined-is-rejected] expired(d) ==> err != nil

//@ func (*DBState).Accepted(d, me) (res, err)
//@   props C08
//@   modifies d.State, d.Acceptors, d.Rejectors, elems(d.Rejectors), heap("E:Int")
//@   ensures [C08:Accepted-legal] err == nil ==> movedLegally(d, res, Accepted)
//@   ensures [C08:Accepted-error-keeps-record] err != nil ==> res == nil && sameRecord(d)
//@   ensures [C08:a-time-expired-Accepted-is-rejected] expired(d) ==> err != nil

//@ func (*DBState).Rejected(d, me) (res, err)
//@   props C08
//@   modifies d.State, d.Acceptors, d.Rejectors, elems(d.Acceptors), heap("E:Int")
//@   ensures [C08:Rejected-legal] err == nil ==> movedLegally(d, res, Rejected)
//@   ensures [C08:Rejected-error-keeps-record] err != nil ==> res == nil && sameRecord(d)
//@   ensures [C08:a-time-expired-Rejected-is-rejected] expired(d) ==> err != nil

//@ func (*DBState).StartExecuting(d, me) (res, err)
//@   props C08
//@   modifies d.State
//@   ensures [C08:StartExecuting-legal] err == nil ==> res == d && legal(old(d.State), d.State) && (d.State == Executing || d.State == Left) && d.Epoch == old(d.Epoch)
//@   ensures [C08:StartExecuting-error-keeps-record] err != nil ==> res == nil && sameRecord(d)
//@   ensures [C08:a-time-expired-StartExecuting-is-rejected] expired(d) ==> err != nil

//@ func (*DBState).Executing(d, me, metadata) (res, err)
//@   props C08 C09
//@   modifies d.State
//@   ensures [C08:Executing-legal] err == nil ==> res == d && legal(old(d.State), d.State) && (d.State == Executing || d.State == Left) && d.Epoch == old(d.Epoch)
//@   ensures [C08:Executing-error-keeps-record] err != nil ==> res == nil && sameRecord(d)
//@   ensures [C08:a-time-expired-Executing-is-rejected] expired(d) ==> err != nil
//@   ensures [C09:only-leader-triggers-execution] err == nil && d.State == Executing ==> metadata.Address == old(d.Leader.Address)

//@ func (*DBState).Complete(d, finalGroup, share) (res, err)
//@   props C08
//@   modifies d.State, d.FinalGroup, d.KeyShare, d.GenesisSeed, finalGroup.GenesisSeed
//@   ensures [C08:Complete-legal] err == nil ==> movedLegally(d, res, Complete) && old(d.State) == Executing
//@   ensures [C08:Complete-records-whole-epoch] err == nil ==> d.FinalGroup == finalGroup && d.KeyShare == share && finalGroup != nil && share != nil
//@   ensures [C08:Complete-error-keeps-record] err != nil ==> res == nil && sameRecord(d)
//@   ensures [C08:a-time-expired-Complete-is-rejected] expired(d) ==> err != nil

//@ func (*DBState).ReceivedAcceptance(d, them, metadata) (res, err)
//@   props C08 C09
//@   modifies d.Acceptors, d.Rejectors, elems(d.Rejectors), heap("E:Int")
//@   ensures [C08:ReceivedAcceptance-keeps-state] err == nil ==> res == d && d.State == old(d.State) && d.Epoch == old(d.Epoch)
//@   ensures [C08:ReceivedAcceptance-error-keeps-record] err != nil ==> res == nil && sameRecord(d)
//@   ensures [C09:acceptor-signs-own-acceptance] err == nil ==> metadata.Address == them.Address
// only a remaining member accepts: the acceptor is looked up in the Remaining list, and the only other lookup is the
// duplicate check in the Acceptors list (a joiner or leaver named as acceptor is refused)
//@   call Contains#0: assert [C09:the-acceptor-is-looked-up-among-the-remaining-members] arg0 == d.Remaining && arg1 == them
//@   call Contains#1: assert [C09:the-only-other-lookup-is-the-duplicate-check] arg0 == d.Acceptors && arg1 == them

//@ func (*DBState).ReceivedRejection(d, them, metadata) (res, err)
//@   props C08 C09
//@   modifies d.Acceptors, d.Rejectors, elems(d.Acceptors), heap("E:Int")
//@   ensures [C08:ReceivedRejection-keeps-state] err == nil ==> res == d && d.State == old(d.State) && d.Epoch == old(d.Epoch)
//@   ensures [C08:ReceivedRejection-error-keeps-record] err != nil ==> res == nil && sameRecord(d)
//@   ensures [C09:rejector-signs-own-rejection] err == nil ==> metadata.Address == them.Address

//@ func validateEpoch(currentState, terms) (err)
//@   props C08
//@   modifies nothing
//@   ensures [C08:epoch-never-decreases] err == nil ==> terms.Epoch >= currentState.Epoch
//@   ensures [C08:same-epoch-only-after-failed-attempt] err == nil && terms.Epoch == currentState.Epoch ==> terminal(currentState.State)
//@   ensures [C08:epoch-skips-only-when-left-or-fresh] err == nil && terms.Epoch > currentState.Epoch + 1 ==> currentState.State == Left || currentState.State == Fresh
//@   ensures [C08:stale-epoch-rejected] terms.Epoch < currentState.Epoch ==> err != nil

// ---- store discipline (C08) and authentication dominance (C09) --------------------
//
// curOf(s, id) / finOf(s, id): the records the DKG store s holds for beacon id (current attempt / last completed epoch).
// nSaves(s): number of successful Save* calls on s.

//@ ghostfield curOf(ref, string) *DBState
//@ ghostfield finOf(ref, string) *DBState
//@ ghostfield nSaves(ref) int

//@ iface (Store).GetCurrent(s, beaconID) (st, err)
//@   trusted abstract two-record contract of the DKG store (bolt implementation: one bucket each)
//@   modifies nothing
//@   ensures err == nil ==> st != nil && st == curOf(s, beaconID)
//@ iface (Store).GetFinished(s, beaconID) (st, err)
//@   trusted see GetCurrent
//@   modifies nothing
//@   ensures err == nil ==> st == finOf(s, beaconID)
//@ iface (Store).SaveCurrent(s, beaconID, state) (err)
//@   trusted see GetCurrent: SaveCurrent replaces only the current record
//@   modifies curOf(s), nSaves(s)
//@   ensures err == nil ==> curOf(s, beaconID) == state && nSaves(s) == old(nSaves(s)) + 1
//@   ensures err != nil ==> curOf(s, beaconID) == old(curOf(s, beaconID)) && nSaves(s) == old(nSaves(s))
//@   ensures forall k string :: k != beaconID ==> curOf(s, k) == old(curOf(s, k))
//@ iface (Store).SaveFinished(s, beaconID, state) (err)
//@   trusted see GetCurrent: SaveFinished replaces both records in one transaction
//@   modifies curOf(s), finOf(s), nSaves(s)
//@   ensures err == nil ==> curOf(s, beaconID) == state && finOf(s, beaconID) == state && nSaves(s) == old(nSaves(s)) + 1
//@   ensures err != nil ==> curOf(s, beaconID) == old(curOf(s, beaconID)) && finOf(s, beaconID) == old(finOf(s, beaconID)) && nSaves(s) == old(nSaves(s))
//@   ensures forall k string :: k != beaconID ==> curOf(s, k) == old(curOf(s, k)) && finOf(s, k) == old(finOf(s, k))

// msgVerified(packet, terms): the packet's signature was checked against the participant it names as sender, over the
// message built from exactly these terms (established only by verifyMessage).
//@ ghost msgVerified(ref, ref) bool
//@ ghost termsOfState(ref) ref

//@ extern termsFromState(state) (t)
//@   trusted field-by-field copy of the proposal terms out of a DBState (fresh object; identity named by termsOfState)
//@   modifies nothing
//@   ensures t == termsOfState(state) && t != nil

// authOK(key, msg, sig): sig is a valid signature on msg under the public key encoded as `key` (scheme soundness assumed)
//@ ghost authOK(bytes, bytes, bytes) bool
//@ iface (github.com/drand/kyber/sign.Scheme).Verify(s, public, msg, sig) (err)
//@   trusted kyber authentication scheme (BLS / Schnorr) verification
//@   modifies nothing
//@   ensures err == nil ==> authOK(pointVal(public), msg, sig)
//@ iface (BeaconIdentifier).KeypairFor(b, beaconID) (kp, err)
//@   trusted looks the node's own key pair up in the daemon; touches no DKG state
//@   modifies nothing
//@   ensures err == nil ==> kp != nil && kp.Public != nil && kp.Public.Scheme != nil

//@ pred pbStr(p) := p != nil
//@ pred lsWritten(b, tag, list, upto) := forall j int :: 0 <= j && j < upto && list[j] != nil ==> wrote(b, strBytes(tag + list[j].Address + "\nSig:")) && wrote(b, list[j].Signature)
//@ pred lsCovered(r, tag, list) := forall j int :: 0 <= j && j < len(list) && list[j] != nil ==> covers(r, strBytes(tag + list[j].Address + "\nSig:")) && covers(r, list[j].Signature)
//@ pred termsWritten(b, t) := wrote(b, strBytes(t.BeaconID + "\n")) && wrote(b, enc(2, 4, t.Epoch)) && (t.Leader != nil ==> wrote(b, strBytes("\nLeader:" + t.Leader.Address + "\n")) && wrote(b, t.Leader.Signature)) && wrote(b, enc(2, 4, t.Threshold)) && wrote(b, enc(2, 4, t.CatchupPeriodSeconds)) && wrote(b, enc(2, 4, t.BeaconPeriodSeconds)) && wrote(b, strBytes("\nScheme: " + t.SchemeID + "\n"))
//@ pred subjectWritten(b, packet) := (typeis(packet.Packet, "*github.com/drand/drand/v2/protobuf/dkg.GossipPacket_Accept") && as(packet.Packet, "*github.com/drand/drand/v2/protobuf/dkg.GossipPacket_Accept").Accept != nil && as(packet.Packet, "*github.com/drand/drand/v2/protobuf/dkg.GossipPacket_Accept").Accept.Acceptor != nil ==> wrote(b, strBytes("Accepted:" + as(packet.Packet, "*github.com/drand/drand/v2/protobuf/dkg.GossipPacket_Accept").Accept.Acceptor.Address + "\n"))) \
//@ \ && (typeis(packet.Packet, "*github.com/drand/drand/v2/protobuf/dkg.GossipPacket_Reject") && as(packet.Packet, "*github.com/drand/drand/v2/protobuf/dkg.GossipPacket_Reject").Reject != nil && as(packet.Packet, "*github.com/drand/drand/v2/protobuf/dkg.GossipPacket_Reject").Reject.Rejector != nil ==> wrote(b, strBytes("Rejected:" + as(packet.Packet, "*github.com/drand/drand/v2/protobuf/dkg.GossipPacket_Reject").Reject.Rejector.Address + "\n"))) \
//@ \ && (typeis(packet.Packet, "*github.com/drand/drand/v2/protobuf/dkg.GossipPacket_Abort") && as(packet.Packet, "*github.com/drand/drand/v2/protobuf/dkg.GossipPacket_Abort").Abort != nil ==> wrote(b, strBytes("Aborted:" + as(packet.Packet, "*github.com/drand/drand/v2/protobuf/dkg.GossipPacket_Abort").Abort.Reason + "\n"))) \
//@ \ && (typeis(packet.Packet, "*github.com/drand/drand/v2/protobuf/dkg.GossipPacket_Execute") ==> wrote(b, strBytes("Execute:"))) \
//@ \ && (typeis(packet.Packet, "*github.com/drand/drand/v2/protobuf/dkg.GossipPacket_Proposal") ==> wrote(b, strBytes("Proposal:")))

//@ func messageForSigning(beaconID, packet, proposal) (r)
//@   props C09
//@   requires packet != nil && proposal != nil
//@   modifies nothing
//@   loop 0: invariant [C09:joiners-are-signed-under-their-role] wrote(addr(ret), strBytes("beaconID:" + beaconID + "\n")) && subjectWritten(addr(ret), packet) && termsWritten(addr(ret), proposal) && lsWritten(addr(ret), "\nJoiner:", proposal.Joining, rangeindex + 1)
//@   loop 1: invariant [C09:remainers-are-signed-under-their-role] wrote(addr(ret), strBytes("beaconID:" + beaconID + "\n")) && subjectWritten(addr(ret), packet) && termsWritten(addr(ret), proposal) && lsWritten(addr(ret), "\nJoiner:", proposal.Joining, len(proposal.Joining)) && lsWritten(addr(ret), "\nRemainer:", proposal.Remaining, rangeindex + 1)
//@   loop 2: invariant [C09:leavers-are-signed-under-their-role] wrote(addr(ret), strBytes("beaconID:" + beaconID + "\n")) && subjectWritten(addr(ret), packet) && termsWritten(addr(ret), proposal) && lsWritten(addr(ret), "\nJoiner:", proposal.Joining, len(proposal.Joining)) && lsWritten(addr(ret), "\nRemainer:", proposal.Remaining, len(proposal.Remaining)) && lsWritten(addr(ret), "\nLeaver:", proposal.Leaving, rangeindex + 1)
//@   call AsTime#1: assert [C09:timeout-term-enters-the-signed-message] arg0 == proposal.Timeout
//@   call AsTime#2: assert [C09:genesis-time-term-enters-the-signed-message] arg0 == proposal.GenesisTime
//@   ensures [C09:signed-message-names-beacon-packet-type-and-subject] covers(r, strBytes("beaconID:" + beaconID + "\n")) && (typeis(packet.Packet, "*github.com/drand/drand/v2/protobuf/dkg.GossipPacket_Accept") && as(packet.Packet, "*github.com/drand/drand/v2/protobuf/dkg.GossipPacket_Accept").Accept != nil && as(packet.Packet, "*github.com/drand/drand/v2/protobuf/dkg.GossipPacket_Accept").Accept.Acceptor != nil ==> covers(r, strBytes("Accepted:" + as(packet.Packet, "*github.com/drand/drand/v2/protobuf/dkg.GossipPacket_Accept").Accept.Acceptor.Address + "\n"))) && (typeis(packet.Packet, "*github.com/drand/drand/v2/protobuf/dkg.GossipPacket_Reject") && as(packet.Packet, "*github.com/drand/drand/v2/protobuf/dkg.GossipPacket_Reject").Reject != nil && as(packet.Packet, "*github.com/drand/drand/v2/protobuf/dkg.GossipPacket_Reject").Reject.Rejector != nil ==> covers(r, strBytes("Rejected:" + as(packet.Packet, "*github.com/drand/drand/v2/protobuf/dkg.GossipPacket_Reject").Reject.Rejector.Address + "\n"))) && (typeis(packet.Packet, "*github.com/drand/drand/v2/protobuf/dkg.GossipPacket_Execute") ==> covers(r, strBytes("Execute:"))) && (typeis(packet.Packet, "*github.com/drand/drand/v2/protobuf/dkg.GossipPacket_Proposal") ==> covers(r, strBytes("Proposal:")))
//@   ensures [C09:signed-message-covers-the-scalar-terms] covers(r, strBytes(proposal.BeaconID + "\n")) && covers(r, enc(2, 4, proposal.Epoch)) && covers(r, enc(2, 4, proposal.Threshold)) && covers(r, enc(2, 4, proposal.CatchupPeriodSeconds)) && covers(r, enc(2, 4, proposal.BeaconPeriodSeconds)) && covers(r, strBytes("\nScheme: " + proposal.SchemeID + "\n")) && (proposal.Leader != nil ==> covers(r, strBytes("\nLeader:" + proposal.Leader.Address + "\n")) && covers(r, proposal.Leader.Signature))
//@   ensures [C09:signed-message-covers-every-participant-under-its-role] lsCovered(r, "\nJoiner:", proposal.Joining) && lsCovered(r, "\nRemainer:", proposal.Remaining) && lsCovered(r, "\nLeaver:", proposal.Leaving)
//@   ensures [C09:signed-message-covers-the-genesis-seed] covers(r, proposal.GenesisSeed)
//@   ensures [C09:signed-message-covers-every-participant-key] (forall j int :: 0 <= j && j < len(proposal.Joining) && proposal.Joining[j] != nil ==> covers(r, proposal.Joining[j].Key)) && (forall j int :: 0 <= j && j < len(proposal.Remaining) && proposal.Remaining[j] != nil ==> covers(r, proposal.Remaining[j].Key)) && (forall j int :: 0 <= j && j < len(proposal.Leaving) && proposal.Leaving[j] != nil ==> covers(r, proposal.Leaving[j].Key))

//@ func (*Process).verifyMessage(d, packet, proposal) (err)
//@   props C09
//@   requires packet != nil && proposal != nil
//@   modifies nothing
//@   loop 0: invariant [C09:sender-lookup-scans-remaining-and-joining] p == nil && -1 <= rangeindex && rangeindex < len(participants)
//@   call messageForSigning#0: assert [C09:verified-message-is-built-from-this-packet-and-these-terms] arg1 == packet && arg2 == proposal && (packet.Metadata != nil ==> arg0 == packet.Metadata.BeaconID)
//@   call Verify#0: assert [C09:signature-is-checked-against-the-named-senders-key] p != nil && pointVal(arg1) == p.Key
//@   call Verify#0: assert [C09:signature-is-checked-over-the-signed-message] arg2 == msg
//@   call Verify#0: assert [C09:checked-signature-is-the-packets-signature] packet.Metadata != nil ==> bytesEq(arg3, packet.Metadata.Signature)
//@   ensures [C09:accepted-packet-is-signed-by-the-participant-it-names] err == nil ==> p != nil && (packet.Metadata != nil ==> p.Address == packet.Metadata.Address) && authOK(p.Key, msg, sig)
//@   ensures [C09:named-sender-is-a-remaining-or-joining-participant-of-the-applied-terms] err == nil ==> (exists j int :: 0 <= j && j < len(proposal.Remaining) && proposal.Remaining[j] == p) || (exists j int :: 0 <= j && j < len(proposal.Joining) && proposal.Joining[j] == p)
//@   defines [C09] err == nil ==> msgVerified(packet, proposal)

//@ extern (*Process).identityForBeacon(d, beaconID) (me, err)
//@   trusted reads the node's key pair through the BeaconIdentifier interface
//@   modifies nothing
//@   ensures err == nil ==> me != nil

//@ func (*Process).gossip(d, me, recipients, packet) (errs)
//@   props C14
//@   flags lockcheck lock-held-on-entry trustedframe
//@   trusted fans the packet out in goroutines, marks it as seen; does not touch the DKG store or the records (frame not checked against the body)
//@   requires [C14:gossip-runs-under-the-process-lock] held(d.lock)
//@   modifies mapof(d.SeenPackets)

//@ extern NewFreshState(beaconID) (s)
//@   trusted composite literal
//@   modifies nothing
//@   ensures s != nil && s.State == Fresh && s.Epoch == 0 && s.BeaconID == beaconID && s.FinalGroup == nil && s.KeyShare == nil

//@ extern (*DBState).Apply(d, me, packet) (res, err)
//@   trusted dispatch on the packet's oneof to the mutators verified above (Proposed / ReceivedAcceptance / ReceivedRejection / Executing / Aborted)
//@   modifies d.State, d.Acceptors, d.Rejectors, heap("E:Int")
//@   ensures err == nil ==> res != nil
//@   ensures err != nil ==> res == nil && d.State == old(d.State)

//@ pred fallbackState(d, beaconID, st) := (terminal(curOf(d.store, beaconID).State) ==> (finOf(d.store, beaconID) != nil ==> st == finOf(d.store, beaconID)) && (finOf(d.store, beaconID) == nil ==> st.State == Fresh && st.Epoch == 0 && st.FinalGroup == nil)) && (!terminal(curOf(d.store, beaconID).State) ==> st == curOf(d.store, beaconID))

//@ extern (*Process).StartNetwork(d, ctx, beaconID, me, state, options) (st, packet, err)
//@   trusted command handlers are checked through the DBState mutators they call; at the Command level only their argument matters
//@   modifies everything
//@ extern (*Process).StartProposal(d, ctx, beaconID, me, state, options) (st, packet, err)
//@   trusted command handlers are checked through the DBState mutators they call; at the Command level only their argument matters
//@   modifies everything
//@ extern (*Process).StartJoin(d, ctx, beaconID, me, state, options) (st, packet, err)
//@   trusted command handlers are checked through the DBState mutators they call; at the Command level only their argument matters
//@   modifies everything
//@ extern (*Process).StartAccept(d, ctx, beaconID, me, state, options) (st, packet, err)
//@   trusted command handlers are checked through the DBState mutators they call; at the Command level only their argument matters
//@   modifies everything
//@ extern (*Process).StartReject(d, ctx, beaconID, me, state, options) (st, packet, err)
//@   trusted command handlers are checked through the DBState mutators they call; at the Command level only their argument matters
//@   modifies everything
//@ extern (*Process).StartExecute(d, ctx, beaconID, me, state, options) (st, packet, err)
//@   trusted command handlers are checked through the DBState mutators they call; at the Command level only their argument matters
//@   modifies everything
//@ extern (*Process).StartAbort(d, ctx, beaconID, state, options) (st, packet, err)
//@   trusted command handlers are checked through the DBState mutators they call; at the Command level only their argument matters
//@   modifies everything

//@ extern (*Process).signMessage(d, beaconID, packet, proposal) (md, err)
//@   trusted signs messageForSigning(...) with the node's long-term key; touches no DKG state
//@   modifies nothing
//@ func commandType(command) (r)
//@   props C08
//@   modifies nothing

//@ func (*Process).Command(d, ctx, command) (res, err)
//@   props C08 C14
//@   flags lockcheck
// a command's read-modify-write of the DKG record is atomic against packets and other commands: every access to the
// store happens while the process lock is held
//@   call GetCurrent#0: assert [C08:command-reads-the-record-under-the-process-lock] held(d.lock)
//@   call GetFinished#0: assert [C08:command-reads-the-finished-record-under-the-process-lock] held(d.lock)
//@   call StartNetwork#0: assert [C08:command-applies-and-saves-under-the-process-lock] held(d.lock)
//@   call StartProposal#0: assert [C08:command-applies-and-saves-under-the-process-lock] held(d.lock)
//@   call StartJoin#0: assert [C08:command-applies-and-saves-under-the-process-lock] held(d.lock)
//@   call StartAccept#0: assert [C08:command-applies-and-saves-under-the-process-lock] held(d.lock)
//@   call StartReject#0: assert [C08:command-applies-and-saves-under-the-process-lock] held(d.lock)
//@   call StartExecute#0: assert [C08:command-applies-and-saves-under-the-process-lock] held(d.lock)
//@   call StartAbort#0: assert [C08:command-applies-and-saves-under-the-process-lock] held(d.lock)
//@   call StartNetwork#0: assert [C08:command-initial-applies-to-fallback-state] fallbackState(d, command.Metadata.BeaconID, arg4) && nSaves(d.store) == old(nSaves(d.store))
//@   call StartProposal#0: assert [C08:command-reshare-applies-to-fallback-state] fallbackState(d, command.Metadata.BeaconID, arg4) && nSaves(d.store) == old(nSaves(d.store))
//@   call StartJoin#0: assert [C08:command-join-applies-to-fallback-state] fallbackState(d, command.Metadata.BeaconID, arg4)
//@   call StartAccept#0: assert [C08:command-accept-applies-to-fallback-state] fallbackState(d, command.Metadata.BeaconID, arg4)
//@   call StartReject#0: assert [C08:command-reject-applies-to-fallback-state] fallbackState(d, command.Metadata.BeaconID, arg4)
//@   call StartExecute#0: assert [C08:command-execute-applies-to-fallback-state] fallbackState(d, command.Metadata.BeaconID, arg4)
//@   call StartAbort#0: assert [C08:command-abort-applies-to-fallback-state] fallbackState(d, command.Metadata.BeaconID, arg3)

//@ func (*Process).applyPacketToState(d, beaconID, packet) (err)
//@   props C08 C09 C14
//@   flags lock-held-on-entry
//@   requires packet != nil && packet.Metadata != nil
//@   requires [C14:packets-are-applied-under-the-process-lock] held(d.lock)
//@   call Apply#0: assert [C08:terminal-attempt-falls-back-to-last-finished-epoch] (terminal(curOf(d.store, beaconID).State) ==> (finOf(d.store, beaconID) != nil ==> arg0 == finOf(d.store, beaconID)) && (finOf(d.store, beaconID) == nil ==> arg0.State == Fresh && arg0.Epoch == 0 && arg0.FinalGroup == nil)) && (!terminal(curOf(d.store, beaconID).State) ==> arg0 == curOf(d.store, beaconID))
//@   call SaveCurrent#0: assert [C09:state-saved-only-after-signature-check-over-the-applied-terms] msgVerified(packet, termsOfState(arg2)) && arg2 != nil
//@   call SaveCurrent#0: assert [C08:nothing-saved-before-validation] nSaves(d.store) == old(nSaves(d.store))
//@   call gossip#0: assert [C09:gossip-only-after-save] nSaves(d.store) == old(nSaves(d.store)) + 1
//@   ensures [C08:rejected-packet-saves-nothing] err != nil ==> nSaves(d.store) == old(nSaves(d.store)) && curOf(d.store, beaconID) == old(curOf(d.store, beaconID)) && finOf(d.store, beaconID) == old(finOf(d.store, beaconID))
//@   ensures [C08:packet-never-touches-finished-record] finOf(d.store, beaconID) == old(finOf(d.store, beaconID))

//@ extern (*Process).startDKGExecution(d, ctx, beaconID, current, config) (out, err)
//@   trusted runs kyber's DKG protocol (goroutines, network); it never calls the DKG store (checked by grep: no d.store use in its body)
//@   modifies nothing
//@   ensures err == nil ==> out != nil

// (the result is named rerr: the body has locals called err, and a Go name in a clause means the variable's current value)
//@ func (*Process).executeAndFinishDKG(d, ctx, beaconID, config) (rerr)
//@   props C08 C13
//@   call SaveFinished#0: assert [C08:finished-record-written-only-for-a-complete-epoch] arg2 != nil && arg2.State == Complete && arg2.FinalGroup != nil && arg2.KeyShare != nil
//@   call SaveFinished#0: assert [C08:completion-moves-from-executing] arg2 == curOf(d.store, beaconID) && nSaves(d.store) == old(nSaves(d.store))
//@   call SaveCurrent#0: assert [C08:failed-attempt-stays-in-the-current-bucket] arg2 != nil && arg2.State == Failed && finOf(d.store, beaconID) == old(finOf(d.store, beaconID))
//@   ensures [C08:failed-attempt-keeps-last-completed-epoch] nSaves(d.store) == old(nSaves(d.store)) ==> finOf(d.store, beaconID) == old(finOf(d.store, beaconID))
// C13: the result is handed to the beacon process (which writes group file and share) only with the finished record in
// the database: a run that reports success has stored exactly the record it published
//@   ensures [C13:a-dkg-is-reported-complete-only-with-its-finished-record-stored] rerr == nil ==> finalState != nil && finOf(d.store, beaconID) == finalState

// ---- C08 / C09: a reshare proposal must name exactly the members of the current epoch, with their recorded keys ------
//@ pred keyKept(q, p) := q != nil && p != nil && q.Address == p.Address ==> bytesEq(q.Key, p.Key)

//@ func keysMatchLastEpoch(lastEpoch, participants) (ok)
//@   props C09
//@   modifies nothing
//@   loop 0: invariant [C09:scanned-participants-keep-their-recorded-keys] -1 <= rangeindex0 && rangeindex0 < len(participants) && (forall i int, k int :: 0 <= i && i <= rangeindex0 && 0 <= k && k < len(lastEpoch) ==> keyKept(lastEpoch[k], participants[i]))
//@   loop 1: invariant [C09:scanned-records-agree-with-this-participant] -1 <= rangeindex1 && rangeindex1 < len(lastEpoch) && (forall k int :: 0 <= k && k <= rangeindex1 ==> keyKept(lastEpoch[k], p))
//@   ensures [C09:match-means-every-common-address-has-the-recorded-key] ok ==> (forall i int, k int :: 0 <= i && i < len(participants) && 0 <= k && k < len(lastEpoch) ==> keyKept(lastEpoch[k], participants[i]))

//@ pred nodeRecorded(lep, nodes, upto) := forall i int :: 0 <= i && i < upto ==> lep[i] != nil && lep[i].Address == nodes[i].Identity.Addr && lep[i].Key == marshalOf(nodes[i].Identity.Key)
//@ pred namesRecordedMembers(list, nodes) := forall j int :: 0 <= j && j < len(list) ==> (exists k int :: 0 <= k && k < len(nodes) && nodes[k].Identity.Addr == list[j].Address)
//@ pred carriesRecordedKeys(list, nodes) := forall j int, k int :: 0 <= j && j < len(list) && 0 <= k && k < len(nodes) && list[j] != nil && list[j].Address == nodes[k].Identity.Addr ==> bytesEq(marshalOf(nodes[k].Identity.Key), list[j].Key)

// everyMemberNamed: every node of the recorded group has its address among the remaining or among the leaving members
//@ pred everyMemberNamed(terms, nodes) := forall k int :: 0 <= k && k < len(nodes) ==> ((exists m int :: 0 <= m && m < len(terms.Remaining) && terms.Remaining[m].Address == nodes[k].Identity.Addr) || (exists m int :: 0 <= m && m < len(terms.Leaving) && terms.Leaving[m].Address == nodes[k].Identity.Addr))
//@ func validateReshareForRemainers(currentState, terms) (err)
//@   props C08 C09
//@   requires currentState != nil && terms != nil && currentState.FinalGroup != nil
// the two participant lists of decoded terms are separate arrays (append(terms.Remaining, terms.Leaving...) may write
// into the spare capacity of Remaining's array; with overlapping arrays that would change what Leaving shows)
//@   requires len(terms.Leaving) > 0 ==> ref(terms.Remaining) != ref(terms.Leaving)
//@   ensures [C08:membership-check-leaves-the-terms-alone] terms.BeaconID == old(terms.BeaconID) && terms.Epoch == old(terms.Epoch) && terms.SchemeID == old(terms.SchemeID) && terms.Threshold == old(terms.Threshold) && terms.GenesisSeed == old(terms.GenesisSeed) && terms.Leader == old(terms.Leader) && terms.Remaining == old(terms.Remaining) && terms.Joining == old(terms.Joining) && terms.Leaving == old(terms.Leaving)
//@   ensures [C08:membership-check-leaves-the-record-alone] sameRecord(currentState)
//@   loop 0: invariant [C08,C09:node-scan-position-in-range] -1 <= rangeindex0 && rangeindex0 < len(currentState.FinalGroup.Nodes)
//@   loop 0: invariant [C08,C09:last-epoch-list-is-new-and-sized-like-the-group] isnew(lastEpochParticipants) && len(lastEpochParticipants) == len(currentState.FinalGroup.Nodes)
//@   loop 0: invariant [C08,C09:last-epoch-participants-mirror-the-recorded-group] nodeRecorded(lastEpochParticipants, currentState.FinalGroup.Nodes, rangeindex0 + 1)
//@   call ContainsAll#0: assert [C08,C09:proposal-members-are-looked-up-in-the-recorded-group] arg0 == lastEpochParticipants && len(arg1) == len(terms.Remaining) + len(terms.Leaving) && (forall j int :: 0 <= j && j < len(terms.Remaining) ==> arg1[j] == terms.Remaining[j]) && (forall j int :: 0 <= j && j < len(terms.Leaving) ==> arg1[len(terms.Remaining) + j] == terms.Leaving[j])
//@   call ContainsAll#1: assert [C08,C09:recorded-group-is-looked-up-in-the-proposal-members] arg1 == lastEpochParticipants && len(arg0) == len(terms.Remaining) + len(terms.Leaving) && (forall j int :: 0 <= j && j < len(terms.Remaining) ==> arg0[j] == terms.Remaining[j]) && (forall j int :: 0 <= j && j < len(terms.Leaving) ==> arg0[len(terms.Remaining) + j] == terms.Leaving[j])
//@   call keysMatchLastEpoch#0: assert [C09:remaining-keys-are-compared-with-the-recorded-group] arg0 == lastEpochParticipants && arg1 == terms.Remaining
//@   call keysMatchLastEpoch#1: assert [C09:leaving-keys-are-compared-with-the-recorded-group] arg0 == lastEpochParticipants && arg1 == terms.Leaving
//@   call ContainsAll#0: assert [C08,C09:recorded-group-mirror-still-holds-at-the-first-lookup] nodeRecorded(lastEpochParticipants, currentState.FinalGroup.Nodes, len(currentState.FinalGroup.Nodes))
//@   call ContainsAll#1: assert [C08,C09:recorded-group-mirror-still-holds-at-the-reverse-lookup] nodeRecorded(lastEpochParticipants, currentState.FinalGroup.Nodes, len(currentState.FinalGroup.Nodes))
//@   call keysMatchLastEpoch#0: assert [C09:recorded-group-mirror-still-holds-at-the-remaining-key-check] nodeRecorded(lastEpochParticipants, currentState.FinalGroup.Nodes, len(currentState.FinalGroup.Nodes))
//@   call keysMatchLastEpoch#1: assert [C09:recorded-group-mirror-still-holds-at-the-leaving-key-check] nodeRecorded(lastEpochParticipants, currentState.FinalGroup.Nodes, len(currentState.FinalGroup.Nodes))
//@   call ContainsAll#0: after [C08,C09:successful-lookup-means-remaining-and-leaving-are-recorded-members] result ==> namesRecordedMembers(terms.Remaining, currentState.FinalGroup.Nodes) && namesRecordedMembers(terms.Leaving, currentState.FinalGroup.Nodes)
//@   call ContainsAll#1: assert [C08,C09:positions-after-the-remaining-members-hold-the-leaving-members] forall m int :: len(terms.Remaining) <= m && m < len(arg0) ==> arg0[m] == terms.Leaving[m - len(terms.Remaining)]
//@   call ContainsAll#1: assert [C08,C09:every-position-of-the-looked-up-list-is-a-remaining-or-leaving-member] forall m int :: 0 <= m && m < len(arg0) ==> arg0[m].Address == ite(m < len(terms.Remaining), terms.Remaining[m].Address, terms.Leaving[m - len(terms.Remaining)].Address)
//@   call ContainsAll#1: assert [C08,C09:the-first-positions-of-the-looked-up-list-hold-the-remaining-members] forall m int :: 0 <= m && m < len(terms.Remaining) ==> arg0[m] == terms.Remaining[m]
//@   call ContainsAll#1: after [C08,C09:successful-reverse-lookup-finds-every-recorded-address-in-the-looked-up-list] result ==> (forall k int :: 0 <= k && k < len(currentState.FinalGroup.Nodes) ==> (exists m int :: 0 <= m && m < len(arg0) && arg0[m].Address == currentState.FinalGroup.Nodes[k].Identity.Addr))
//@   call ContainsAll#1: after [C08,C09:successful-reverse-lookup-means-nobody-is-left-out] result ==> everyMemberNamed(terms, currentState.FinalGroup.Nodes)
//@   call keysMatchLastEpoch#0: after [C09:matching-remaining-keys-are-the-recorded-keys] result ==> carriesRecordedKeys(terms.Remaining, currentState.FinalGroup.Nodes)
//@   call keysMatchLastEpoch#1: after [C09:matching-leaving-keys-are-the-recorded-keys] result ==> carriesRecordedKeys(terms.Leaving, currentState.FinalGroup.Nodes)
//@   ensures [C08,C09:remaining-and-leaving-members-exist-in-the-current-group] err == nil ==> namesRecordedMembers(terms.Remaining, currentState.FinalGroup.Nodes) && namesRecordedMembers(terms.Leaving, currentState.FinalGroup.Nodes)
//@   ensures [C08,C09:every-member-of-the-current-group-is-remaining-or-leaving] err == nil ==> everyMemberNamed(terms, currentState.FinalGroup.Nodes)
//@   ensures [C09:remaining-and-leaving-members-carry-the-keys-recorded-in-the-current-group] err == nil ==> carriesRecordedKeys(terms.Remaining, currentState.FinalGroup.Nodes) && carriesRecordedKeys(terms.Leaving, currentState.FinalGroup.Nodes)
//@   ensures [C08:reshare-keeps-genesis-seed] err == nil ==> bytesEq(terms.GenesisSeed, currentState.GenesisSeed)

// ---- C14: no DKG message can wedge the node -------------------------------------------

//@ func (*Process).executeDKG(d, ctx, beaconID, executionStartTime) (err)
//@   props C14
//@   flags lockcheck lock-held-on-entry
//@   requires [C14:execution-is-set-up-under-the-process-lock] held(d.lock)
//@   modifies everything

// pbvalid: the top-level request of a handler may be anything protobuf can decode: nested message pointers and
// oneof wrappers may be nil. Node state reachable from the receiver is well-formed (non-nil logger, maps, store).
//@ func (*Process).Packet(d, ctx, packet) (res, err)
//@   props C14
//@   flags lockcheck nopanic recovered
//@   requires [C14] d.log != nil && d.store != nil

//@ func (*Process).BroadcastDKG(d, ctx, packet) (res, err)
//@   props C14
//@   flags lockcheck nopanic recovered
//@   requires [C14] d.log != nil

// ---- C15: the DKG database holds the key share of every finished epoch -------------------------------------
//@ extern go.etcd.io/bbolt.Open(path, mode, options) (db, err)
//@   trusted bbolt: creates the database file with the given mode (masked by umask)
//@   modifies fexists(path), fmode(path), fcontent(path)
//@   ensures err == nil ==> db != nil && fexists(path) && (!old(fexists(path)) ==> fmode(path) == newMode(mode))

//@ func NewDKGStore(baseFolder) (s, err)
//@   props C15
//@   call Open#0: assert [C15:dkg-database-is-created-owner-only] arg1 % 64 == 0

// ---- C13: the DKG database records a completed epoch as one whole transaction ----------------------------------------
// package-level bucket names (declared once, never reassigned: checked by grep in setup)
//@ axiom [C13] dkg-bucket-names-differ: stagedStateBucket != finishedStateBucket

//@ extern encodeState(state) (b, err)
//@   trusted TOML encoding of the state's mirror struct (field coverage is C20's subject)
//@   modifies nothing

//@ func (*BoltStore).SaveFinished(s, beaconID, state) (err)
//@   props C13
//@   ensures [C13:a-completed-epoch-is-recorded-by-exactly-one-transaction] ntx(s.db) == old(ntx(s.db)) + 1

//@ func (*BoltStore).SaveFinished$1(tx) (err)
//@   props C13
//@   requires nput(tx) == 0
//@   call encodeState#0: assert [C13:the-recorded-state-is-the-completed-state] arg0 == state
//@   ensures [C13:the-transaction-writes-the-finished-and-the-current-record-together] err == nil ==> putVal(tx, finishedStateBucket) == putVal(tx, stagedStateBucket) && bytesEq(putKey(tx, finishedStateBucket), strBytes(beaconID)) && bytesEq(putKey(tx, stagedStateBucket), strBytes(beaconID)) && nput(tx) == 2
//@   ensures [C13:a-failed-transaction-reports-its-error] nput(tx) < 2 ==> err != nil

//@ func (*BoltStore).save(s, bucketName, beaconID, state) (err)
//@   props C13
//@   ensures [C13:a-single-record-is-saved-by-one-transaction] ntx(s.db) == old(ntx(s.db)) + 1

// ---- C20: the DKG database record and its hand-maintained TOML mirror carry every field -----------------------------
// fieldwise(dst, src, skipped): every field of src not listed as skipped has an equal, same-typed field in dst; a field
// added to DBState later and forgotten in the mirror makes the clause fail (or unevaluable, reported as a violation).
// Timeout and GenesisTime are time.Time values (GenesisTime normalised to UTC), FinalGroup / KeyShare go through their
// own TOML mirrors: for these only presence is stated here.
//@ func (*DBState).TOML(d) (r)
//@   props C20
//@   requires [C20] d.FinalGroup != nil ==> d.FinalGroup.Scheme != nil && (forall k int :: 0 <= k && k < len(d.FinalGroup.Nodes) ==> d.FinalGroup.Nodes[k] != nil && d.FinalGroup.Nodes[k].Identity != nil)
//@   requires [C20] d.KeyShare != nil ==> d.KeyShare.Share != nil && d.KeyShare.Scheme != nil
//@   ensures [C20:dkg-record-mirror-carries-every-field] fieldwise(r, d, "Timeout,GenesisTime,FinalGroup,KeyShare")
//@   ensures [C20:dkg-record-mirror-keeps-group-and-share-presence] (r.FinalGroup != nil) == (d.FinalGroup != nil) && (r.KeyShare != nil) == (d.KeyShare != nil)

//@ func (*DBStateTOML).FromTOML(d) (res, err)
//@   props C20
//@   ensures [C20:dkg-record-decoding-carries-every-field] err == nil ==> res != nil && fieldwise(res, d, "Timeout,GenesisTime,TransitionTime,FinalGroup,KeyShare")
//@   ensures [C20:dkg-record-decoding-keeps-group-and-share-presence] err == nil ==> (res.FinalGroup != nil) == (d.FinalGroup != nil) && (res.KeyShare != nil) == (d.KeyShare != nil)

// ---- C08 / C09: proposal validation and the two proposal mutators -----------------------------------------------------------
// epochRule: what validateEpoch establishes; thresholdInRange: security threshold bounds over remaining + joining nodes
//@ pred epochRule(cur, terms) := terms.Epoch >= cur.Epoch && (terms.Epoch == cur.Epoch ==> terminal(cur.State)) && (terms.Epoch > cur.Epoch + 1 ==> cur.State == Left || cur.State == Fresh)
//@ pred thresholdInRange(terms) := terms.Threshold <= len(terms.Joining) + len(terms.Remaining) && terms.Threshold >= (len(terms.Joining) + len(terms.Remaining)) / 2 + 1

//@ extern (*github.com/drand/drand/v2/common/key.Identity).ValidSignature(i) (err)
//@   trusted self-signature check of an identity (kyber scheme verification, assumed sound)
//@   modifies nothing
//@   ensures err == nil ==> selfSigned(i)
// selfSigned(id): the identity carries a valid signature of its own key; joinerChecked(p): participant p decoded to a self-signed identity
//@ ghost joinerChecked(ref) bool

//@ func validateJoinerSignatures(terms, targetSch) (err)
//@   props C09 C08
//@   requires terms != nil && targetSch != nil
//@   modifies nothing
//@   call ValidSignature#0: assert [C09:the-identity-checked-is-the-joiner-decoded-under-the-proposal-scheme] id != nil && id.Scheme == targetSch && participant == terms.Joining[rangeindex0 + 1]
//@   loop 0: invariant [C09:joiner-scan-position] -1 <= rangeindex0 && rangeindex0 < len(terms.Joining)
//@   loop 0: invariant [C09:every-joiner-passed-so-far-is-self-signed] forall k int {terms.Joining[k]} :: 0 <= k && k <= rangeindex0 ==> key.pSelfSigned(terms.Joining[k], targetSch)
//@   ensures [C09:an-accepted-proposal-has-only-self-signed-joiners] err == nil ==> (forall k int {terms.Joining[k]} :: 0 <= k && k < len(terms.Joining) ==> key.pSelfSigned(terms.Joining[k], targetSch))

//@ func validateForAllDKGs(currentState, terms) (err)
//@   props C08
//@   requires currentState != nil
//@   modifies nothing
//@   ensures [C08:missing-terms-rejected] terms == nil ==> err != nil
//@   ensures [C08:accepted-terms-name-this-beacon-a-known-scheme-and-a-threshold-in-range] err == nil ==> terms != nil && currentState.BeaconID == terms.BeaconID && crypto.knownScheme(terms.SchemeID) && thresholdInRange(terms) && epochRule(currentState, terms)

//@ func validateFirstEpoch(terms) (err)
//@   props C08
//@   requires terms != nil
//@   modifies nothing
//@   ensures [C08:first-epoch-has-only-joiners-no-seed-and-enough-nodes] err == nil ==> len(terms.GenesisSeed) == 0 && terms.Remaining == nil && terms.Leaving == nil && len(terms.Joining) >= terms.Threshold

//@ func validateReshareTerms(currentState, terms) (err)
//@   props C08
//@   requires terms != nil && currentState != nil
//@   modifies nothing
//@   ensures [C08:reshare-keeps-at-least-the-old-threshold-of-remaining-nodes] err == nil ==> len(terms.Remaining) > 0 && len(terms.Remaining) >= currentState.Threshold

// wfForReshare: a record that is not Fresh and is offered a reshare proposal carries its last group (data invariant of the
// DKG store: the record passed is the last finished one or Fresh, see Command / applyPacketToState); the decoded
// participant lists are separate arrays (same assumption as validateReshareForRemainers)
// recordInv: what the mutators establish for every record a node can hold: only a completed epoch carries group and share
// (Proposed / Proposing build records without them; Complete sets both). wfTerms: a proposal whose message fields are present
// (a decodable packet may leave them out: such packets end in a contained panic, which C14 covers).
//@ pred recordInv(d) := d != nil && (d.State == Complete ==> d.FinalGroup != nil && d.KeyShare != nil) && (d.FinalGroup != nil ==> d.FinalGroup.Scheme != nil)
//@ pred wfTerms(t) := t != nil && t.Leader != nil && t.Timeout != nil && t.GenesisTime != nil
//@ pred wfForReshare(cur, terms) := (terms != nil && len(terms.Leaving) > 0 ==> ref(terms.Remaining) != ref(terms.Leaving))
//@ func ValidateProposal(currentState, terms) (err)
//@   props C08
//@   flags nopanic=C08
//@   requires currentState != nil
// (the callers fall back to the last finished record when the stored attempt is Aborted / TimedOut / Failed, and the two
// proposal mutators call this only after the transition table allowed the move)
//@   requires [C08] recordInv(currentState) && (terms != nil ==> wfTerms(terms)) && !terminal(currentState.State) && (legal(currentState.State, Proposed) || legal(currentState.State, Proposing))
//@   requires [C08] wfForReshare(currentState, terms)
//@   ensures [C08:validation-leaves-the-terms-alone] terms != nil ==> terms.BeaconID == old(terms.BeaconID) && terms.Epoch == old(terms.Epoch) && terms.SchemeID == old(terms.SchemeID) && terms.Threshold == old(terms.Threshold) && terms.GenesisSeed == old(terms.GenesisSeed) && terms.Leader == old(terms.Leader) && terms.Remaining == old(terms.Remaining) && terms.Joining == old(terms.Joining) && terms.Leaving == old(terms.Leaving)
//@   ensures [C08:validation-leaves-the-record-alone] sameRecord(currentState)
//@   ensures [C08:accepted-proposal-passed-the-common-checks] err == nil ==> terms != nil && currentState.BeaconID == terms.BeaconID && crypto.knownScheme(terms.SchemeID) && thresholdInRange(terms) && epochRule(currentState, terms)
//@   ensures [C08:accepted-first-epoch-proposal-has-only-joiners] err == nil && terms.Epoch == 1 ==> len(terms.GenesisSeed) == 0 && terms.Remaining == nil && terms.Leaving == nil
//@   ensures [C08:accepted-reshare-keeps-the-old-threshold-of-remaining-nodes] err == nil && terms.Epoch != 1 ==> len(terms.Remaining) > 0 && len(terms.Remaining) >= currentState.Threshold
//@   call validateReshareForRemainers#0: assert [C08,C09:members-of-the-group-always-run-the-membership-and-key-check] currentState.State != Fresh

//@ func (*DBState).Proposed(d, me, terms, metadata) (res, err)
//@   props C08 C09
//@   requires metadata != nil
//@   requires [C08] recordInv(d) && wfTerms(terms) && !terminal(d.State)
//@   requires [C08] wfForReshare(d, terms)
//@   ensures [C09:only-the-leader-named-in-the-terms-proposes] err == nil ==> old(terms != nil && terms.Leader != nil && metadata.Address == terms.Leader.Address)
//@   ensures [C08:Proposed-legal] err == nil ==> res != nil && isnew(res) && res.State == Proposed && legal(d.State, Proposed) && res.BeaconID == d.BeaconID && res.Epoch == terms.Epoch && epochRule(d, terms) && thresholdInRange(terms)
//@   ensures [C08:Proposed-takes-the-terms] err == nil ==> res.Threshold == terms.Threshold && res.SchemeID == terms.SchemeID && res.GenesisSeed == terms.GenesisSeed && res.Leader == terms.Leader && res.FinalGroup == nil && res.KeyShare == nil
//@   ensures [C08:Proposed-error-returns-nothing] err != nil ==> res == nil
//@   ensures [C08:Proposed-leaves-the-current-record-alone] sameRecord(d)

//@ func (*DBState).Proposing(d, me, terms) (res, err)
//@   props C08 C09
//@   requires [C08] recordInv(d) && wfTerms(terms) && !terminal(d.State)
//@   requires [C08] wfForReshare(d, terms)
//@   ensures [C09:only-the-leader-itself-starts-a-proposal] err == nil ==> terms != nil && terms.Leader == me
//@   ensures [C08:Proposing-legal] err == nil ==> res != nil && isnew(res) && res.State == Proposing && legal(d.State, Proposing) && res.BeaconID == d.BeaconID && res.Epoch == terms.Epoch && epochRule(d, terms) && thresholdInRange(terms) && (d.State == Fresh ==> terms.Epoch <= 1)
//@   ensures [C08:Proposing-keeps-the-genesis-seed-of-the-current-record] err == nil ==> res.GenesisSeed == d.GenesisSeed && res.Threshold == terms.Threshold && res.FinalGroup == nil && res.KeyShare == nil
//@   ensures [C08:Proposing-error-returns-nothing] err != nil ==> res == nil
//@   ensures [C08:Proposing-leaves-the-current-record-alone] sameRecord(d)

// ---- C14: the echo broadcast never waits for a slow peer while it holds its lock -------------------------------------------
// sendPacket is called under the echo broadcast's mutex for every peer: it must hand the packet to the peer's queue or
// drop it, never wait (a full queue of one unreachable peer would otherwise wedge every later broadcast request).
//@ func (*sender).sendPacket(s, ctx, p)
//@   props C14
//@   flags nonblocking

// ---- C07: a resharing runs on the key material of the last completed epoch --------------------------------------------------
// (that kyber's resharing then keeps the distributed public key is cryptography, assumed; what drand must get right is that it
// hands over the previous share, the previous public coefficients and the two thresholds)
//@ extern (*github.com/drand/drand/v2/common/key.Group).DKGNodes(g) (nodes)
//@   trusted maps the group's nodes to kyber DKG nodes (index, public key), touches nothing
//@   modifies nothing
//@   ensures nodes == dkgNodesOf(g)
//@ ghost dkgNodesOf(ref) slice
//@ func (*Process).reshareDKGConfig(d, current, previous, keypair, sortedParticipants) (cfg, err)
//@   props C07
//@   requires current != nil && keypair != nil
//@   ensures [C07:a-reshare-without-a-completed-epoch-is-refused] previous == nil ==> err != nil
//@   ensures [C07:reshare-hands-over-the-previous-public-coefficients] err == nil ==> cfg != nil && cfg.PublicCoeffs == previous.FinalGroup.PublicKey.Coefficients
//@   ensures [C07:reshare-hands-over-the-previous-share] err == nil ==> cfg.Share == addr(previous.KeyShare.DistKeyShare)
//@   ensures [C07:reshare-names-the-previous-group-as-the-old-nodes] err == nil ==> cfg.OldNodes == dkgNodesOf(previous.FinalGroup)
//@   ensures [C07:reshare-signs-with-the-nodes-long-term-key] err == nil ==> cfg.Longterm == keypair.Key
//@   ensures [C07:reshare-uses-the-new-threshold-and-remembers-the-old-one] err == nil ==> cfg.Threshold == current.Threshold && cfg.OldThreshold == previous.Threshold

// ---- C14: the DKG process keeps two Go maps (running executions, packets seen) that handlers of different requests share ----
//@ guarded Process.Executions by lock
//@ guarded Process.SeenPackets by lock
//@ func (*Process).setupDKG(d, ctx, beaconID) (cfg, err)
//@   props C14
//@   flags lockcheck lock-held-on-entry
//@   requires [C14:execution-setup-runs-under-the-process-lock] held(d.lock)
//@ iface (Store).Close(s) (err)
//@   trusted closes the DKG database; no state of the DKG process
//@   modifies nothing
//@ iface (Broadcast).Stop(b)
//@   trusted stops the echo broadcast of one execution (its own dispatcher and channels); no state of the DKG process
//@   modifies nothing
//@ func (*Process).Close(d)
//@   props C14
//@   flags lockcheck
