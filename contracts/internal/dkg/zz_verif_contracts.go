//go:build verif

// Contracts for package dkg. Comment-only file: adds no code.
// Read by /verif/govc; see /verif/DESIGN.md §4.

package dkg

// ---- C08: DKG state machine ------------------------------------------------
//
// legal(c, n): the protocol's transition relation (written out once here; the lemmas below pin down the
// facts the property statement relies on, independently of the table's exact shape).

//@ pred legal(c, n) := (c == Fresh && (n == Proposing || n == Proposed)) \
//@ \ || (c == Joined && (n == Left || n == Executing || n == Aborted || n == TimedOut)) \
//@ \ || (c == Proposing && (n == Executing || n == Aborted || n == TimedOut)) \
//@ \ || (c == Proposed && (n == Accepted || n == Rejected || n == Joined || n == Left || n == Aborted || n == TimedOut)) \
//@ \ || (c == Accepted && (n == Executing || n == Aborted || n == TimedOut)) \
//@ \ || (c == Rejected && (n == Aborted || n == TimedOut)) \
//@ \ || (c == Executing && (n == Complete || n == TimedOut || n == Failed)) \
//@ \ || (c == Complete && (n == Proposing || n == Proposed)) \
//@ \ || (c == Left && (n == Joined || n == Aborted || n == Proposed)) \
//@ \ || (c == Aborted && (n == Proposing || n == Proposed)) \
//@ \ || (c == TimedOut && (n == Proposing || n == Proposed || n == Aborted)) \
//@ \ || (c == Failed && (n == Proposing || n == Proposed || n == Left || n == Aborted))
// package-level table of terminal states (declared as a slice literal and never reassigned: checked by grep in setup)
//@ axiom terminalStates-content: len(terminalStates) == 3 && terminalStates[0] == Aborted && terminalStates[1] == TimedOut && terminalStates[2] == Failed
//@ pred isStatus(s) := 0 <= s && s <= 11
//@ pred terminal(s) := s == Aborted || s == TimedOut || s == Failed

//@ lemma [C08] complete-only-from-executing: forall c int, n int :: isStatus(c) && legal(c, Complete) ==> c == Executing
//@ lemma [C08] executing-leaves-only-to-complete-timeout-failed: forall n int :: legal(Executing, n) ==> n == Complete || n == TimedOut || n == Failed
//@ lemma [C08] terminal-states-restart-or-abort-or-leave: forall c int, n int :: terminal(c) && legal(c, n) ==> n == Proposing || n == Proposed || n == Aborted || n == Left
//@ lemma [C08] executing-only-after-agreement: forall c int :: legal(c, Executing) ==> c == Joined || c == Proposing || c == Accepted
//@ lemma [C08] no-self-loop: forall c int :: isStatus(c) ==> !legal(c, c)

//@ func isValidStateChange(current, next) (r)
//@   props C08
//@   modifies nothing
//@   ensures [C08:transition-table] r <==> legal(current, next)

//@ func (Status).String(s) (r)
//@   props C08
//@   modifies nothing

//@ func InvalidStateChange(from, to) (err)
//@   props C08
//@   modifies nothing
//@   ensures [C08:invalid-transition-is-an-error] err != nil

//@ func hasTimedOut(details) (r)
//@   props C08
//@   modifies nothing

//@ func isProposalPhase(d) (r)
//@   props C08
//@   modifies nothing
//@   ensures [C08:proposal-phase] r <==> (d.State == Proposing || d.State == Proposed || d.State == Accepted || d.State == Rejected || d.State == Joined)

// Every mutator: on success the state moved along a legal edge (or stayed, for the two Received* methods),
// epoch and beacon id are untouched; on error nothing of the record changed and no state is returned.
//@ pred sameRecord(d) := d.State == old(d.State) && d.Epoch == old(d.Epoch) && d.BeaconID == old(d.BeaconID) && d.FinalGroup == old(d.FinalGroup) && d.KeyShare == old(d.KeyShare) && d.Acceptors == old(d.Acceptors) && d.Rejectors == old(d.Rejectors) && d.Threshold == old(d.Threshold) && d.GenesisSeed == old(d.GenesisSeed)
//@ pred movedLegally(d, res, target) := res == d && d.State == target && legal(old(d.State), target) && d.Epoch == old(d.Epoch) && d.BeaconID == old(d.BeaconID)

//@ func (*DBState).TimedOut(d) (res, err)
//@   props C08
//@   modifies d.State
//@   ensures [C08:TimedOut-legal] err == nil ==> movedLegally(d, res, TimedOut)
//@   ensures [C08:TimedOut-error-keeps-record] err != nil ==> res == nil && sameRecord(d)

//@ func (*DBState).StartAbort(d) (res, err)
//@   props C08
//@   modifies d.State
//@   ensures [C08:StartAbort-legal] err == nil ==> movedLegally(d, res, Aborted)
//@   ensures [C08:StartAbort-error-keeps-record] err != nil ==> res == nil && sameRecord(d)

//@ func (*DBState).Aborted(d, metadata) (res, err)
//@   props C08 C09
//@   modifies d.State
//@   ensures [C08:Aborted-legal] err == nil ==> movedLegally(d, res, Aborted)
//@   ensures [C08:Aborted-error-keeps-record] err != nil ==> res == nil && sameRecord(d)
//@   ensures [C09:only-leader-aborts-remotely] err == nil ==> metadata.Address == old(d.Leader.Address)

//@ func (*DBState).Failed(d) (res, err)
//@   props C08
//@   modifies d.State
//@   ensures [C08:Failed-legal] err == nil ==> movedLegally(d, res, Failed)
//@   ensures [C08:Failed-only-from-executing] err == nil ==> old(d.State) == Executing
//@   ensures [C08:Failed-error-keeps-record] err != nil ==> res == nil && sameRecord(d)

//@ func (*DBState).Left(d, me) (res, err)
//@   props C08
//@   modifies d.State
//@   ensures [C08:Left-legal] err == nil ==> movedLegally(d, res, Left)
//@   ensures [C08:Left-error-keeps-record] err != nil ==> res == nil && sameRecord(d)

//@ func (*DBState).Joined(d, me, previousGroup) (res, err)
//@   props C08
//@   modifies d.State, d.FinalGroup
//@   ensures [C08:Joined-legal] err == nil ==> movedLegally(d, res, Joined) && d.FinalGroup == previousGroup
//@   ensures [C08:Joined-error-keeps-record] err != nil ==> res == nil && sameRecord(d)

//@ func (*DBState).Accepted(d, me) (res, err)
//@   props C08
//@   modifies d.State, d.Acceptors, d.Rejectors, elems(d.Rejectors), heap("E:Int")
//@   ensures [C08:Accepted-legal] err == nil ==> movedLegally(d, res, Accepted)
//@   ensures [C08:Accepted-error-keeps-record] err != nil ==> res == nil && sameRecord(d)

//@ func (*DBState).Rejected(d, me) (res, err)
//@   props C08
//@   modifies d.State, d.Acceptors, d.Rejectors, elems(d.Acceptors), heap("E:Int")
//@   ensures [C08:Rejected-legal] err == nil ==> movedLegally(d, res, Rejected)
//@   ensures [C08:Rejected-error-keeps-record] err != nil ==> res == nil && sameRecord(d)

//@ func (*DBState).StartExecuting(d, me) (res, err)
//@   props C08
//@   modifies d.State
//@   ensures [C08:StartExecuting-legal] err == nil ==> res == d && legal(old(d.State), d.State) && (d.State == Executing || d.State == Left) && d.Epoch == old(d.Epoch)
//@   ensures [C08:StartExecuting-error-keeps-record] err != nil ==> res == nil && sameRecord(d)

//@ func (*DBState).Executing(d, me, metadata) (res, err)
//@   props C08 C09
//@   modifies d.State
//@   ensures [C08:Executing-legal] err == nil ==> res == d && legal(old(d.State), d.State) && (d.State == Executing || d.State == Left) && d.Epoch == old(d.Epoch)
//@   ensures [C08:Executing-error-keeps-record] err != nil ==> res == nil && sameRecord(d)
//@   ensures [C09:only-leader-triggers-execution] err == nil && d.State == Executing ==> metadata.Address == old(d.Leader.Address)

//@ func (*DBState).Complete(d, finalGroup, share) (res, err)
//@   props C08
//@   modifies d.State, d.FinalGroup, d.KeyShare, d.GenesisSeed, finalGroup.GenesisSeed
//@   ensures [C08:Complete-legal] err == nil ==> movedLegally(d, res, Complete) && old(d.State) == Executing
//@   ensures [C08:Complete-records-whole-epoch] err == nil ==> d.FinalGroup == finalGroup && d.KeyShare == share && finalGroup != nil && share != nil
//@   ensures [C08:Complete-error-keeps-record] err != nil ==> res == nil && sameRecord(d)

//@ func (*DBState).ReceivedAcceptance(d, them, metadata) (res, err)
//@   props C08 C09
//@   modifies d.Acceptors, d.Rejectors, elems(d.Rejectors), heap("E:Int")
//@   ensures [C08:ReceivedAcceptance-keeps-state] err == nil ==> res == d && d.State == old(d.State) && d.Epoch == old(d.Epoch)
//@   ensures [C08:ReceivedAcceptance-error-keeps-record] err != nil ==> res == nil && sameRecord(d)
//@   ensures [C09:acceptor-signs-own-acceptance] err == nil ==> metadata.Address == them.Address

//@ func (*DBState).ReceivedRejection(d, them, metadata) (res, err)
//@   props C08 C09
//@   modifies d.Acceptors, d.Rejectors, elems(d.Acceptors), heap("E:Int")
//@   ensures [C08:ReceivedRejection-keeps-state] err == nil ==> res == d && d.State == old(d.State) && d.Epoch == old(d.Epoch)
//@   ensures [C08:ReceivedRejection-error-keeps-record] err != nil ==> res == nil && sameRecord(d)
//@   ensures [C09:rejector-signs-own-rejection] err == nil ==> metadata.Address == them.Address

//@ func validateEpoch(currentState, terms) (err)
//@   props C08
//@   modifies nothing
//@   ensures [C08:epoch-never-decreases] err == nil ==> terms.Epoch >= currentState.Epoch
//@   ensures [C08:same-epoch-only-after-failed-attempt] err == nil && terms.Epoch == currentState.Epoch ==> terminal(currentState.State)
//@   ensures [C08:epoch-skips-only-when-left-or-fresh] err == nil && terms.Epoch > currentState.Epoch + 1 ==> currentState.State == Left || currentState.State == Fresh
//@   ensures [C08:stale-epoch-rejected] terms.Epoch < currentState.Epoch ==> err != nil

// ---- store discipline (C08) and authentication dominance (C09) --------------------
//
// curOf(s, id) / finOf(s, id): the records the DKG store s holds for beacon id (current attempt / last completed epoch).
// nSaves(s): number of successful Save* calls on s.

//@ ghostfield curOf(ref, string) *DBState
//@ ghostfield finOf(ref, string) *DBState
//@ ghostfield nSaves(ref) int

//@ iface (Store).GetCurrent(s, beaconID) (st, err)
//@   trusted abstract two-record contract of the DKG store (bolt implementation: one bucket each)
//@   modifies nothing
//@   ensures err == nil ==> st != nil && st == curOf(s, beaconID)
//@ iface (Store).GetFinished(s, beaconID) (st, err)
//@   trusted see GetCurrent
//@   modifies nothing
//@   ensures err == nil ==> st == finOf(s, beaconID)
//@ iface (Store).SaveCurrent(s, beaconID, state) (err)
//@   trusted see GetCurrent: SaveCurrent replaces only the current record
//@   modifies curOf(s), nSaves(s)
//@   ensures err == nil ==> curOf(s, beaconID) == state && nSaves(s) == old(nSaves(s)) + 1
//@   ensures err != nil ==> curOf(s, beaconID) == old(curOf(s, beaconID)) && nSaves(s) == old(nSaves(s))
//@   ensures forall k string :: k != beaconID ==> curOf(s, k) == old(curOf(s, k))
//@ iface (Store).SaveFinished(s, beaconID, state) (err)
//@   trusted see GetCurrent: SaveFinished replaces both records in one transaction
//@   modifies curOf(s), finOf(s), nSaves(s)
//@   ensures err == nil ==> curOf(s, beaconID) == state && finOf(s, beaconID) == state && nSaves(s) == old(nSaves(s)) + 1
//@   ensures err != nil ==> curOf(s, beaconID) == old(curOf(s, beaconID)) && finOf(s, beaconID) == old(finOf(s, beaconID)) && nSaves(s) == old(nSaves(s))
//@   ensures forall k string :: k != beaconID ==> curOf(s, k) == old(curOf(s, k)) && finOf(s, k) == old(finOf(s, k))

// msgVerified(packet, terms): the packet's signature was checked against the participant it names as sender, over the
// message built from exactly these terms (established only by verifyMessage).
//@ ghost msgVerified(ref, ref) bool
//@ ghost termsOfState(ref) ref

//@ extern termsFromState(state) (t)
//@   trusted field-by-field copy of the proposal terms out of a DBState (fresh object; identity named by termsOfState)
//@   modifies nothing
//@   ensures t == termsOfState(state)

//@ extern (*Process).verifyMessage(d, packet, proposal) (err)
//@   trusted body verified separately (C09 clauses on verifyMessage / messageForSigning); here: the ghost fact it establishes
//@   modifies nothing
//@   ensures err == nil ==> msgVerified(packet, proposal)

//@ extern (*Process).identityForBeacon(d, beaconID) (me, err)
//@   trusted reads the node's key pair through the BeaconIdentifier interface
//@   modifies nothing
//@   ensures err == nil ==> me != nil

//@ extern (*Process).gossip(d, me, recipients, packet) (errs)
//@   trusted fans the packet out in goroutines; does not touch the DKG store
//@   modifies nothing

//@ extern NewFreshState(beaconID) (s)
//@   trusted composite literal
//@   modifies nothing
//@   ensures s != nil && s.State == Fresh && s.Epoch == 0 && s.BeaconID == beaconID && s.FinalGroup == nil && s.KeyShare == nil

//@ extern (*DBState).Apply(d, me, packet) (res, err)
//@   trusted dispatch on the packet's oneof to the mutators verified above (Proposed / ReceivedAcceptance / ReceivedRejection / Executing / Aborted)
//@   modifies d.State, d.Acceptors, d.Rejectors, heap("E:Int")
//@   ensures err == nil ==> res != nil
//@   ensures err != nil ==> res == nil && d.State == old(d.State)

//@ pred fallbackState(d, beaconID, st) := (terminal(curOf(d.store, beaconID).State) ==> (finOf(d.store, beaconID) != nil ==> st == finOf(d.store, beaconID)) && (finOf(d.store, beaconID) == nil ==> st.State == Fresh && st.Epoch == 0 && st.FinalGroup == nil)) && (!terminal(curOf(d.store, beaconID).State) ==> st == curOf(d.store, beaconID))

//@ extern (*Process).StartNetwork(d, ctx, beaconID, me, state, options) (st, packet, err)
//@   trusted command handlers are checked through the DBState mutators they call; at the Command level only their argument matters
//@   modifies everything
//@ extern (*Process).StartProposal(d, ctx, beaconID, me, state, options) (st, packet, err)
//@   trusted command handlers are checked through the DBState mutators they call; at the Command level only their argument matters
//@   modifies everything
//@ extern (*Process).StartJoin(d, ctx, beaconID, me, state, options) (st, packet, err)
//@   trusted command handlers are checked through the DBState mutators they call; at the Command level only their argument matters
//@   modifies everything
//@ extern (*Process).StartAccept(d, ctx, beaconID, me, state, options) (st, packet, err)
//@   trusted command handlers are checked through the DBState mutators they call; at the Command level only their argument matters
//@   modifies everything
//@ extern (*Process).StartReject(d, ctx, beaconID, me, state, options) (st, packet, err)
//@   trusted command handlers are checked through the DBState mutators they call; at the Command level only their argument matters
//@   modifies everything
//@ extern (*Process).StartExecute(d, ctx, beaconID, me, state, options) (st, packet, err)
//@   trusted command handlers are checked through the DBState mutators they call; at the Command level only their argument matters
//@   modifies everything
//@ extern (*Process).StartAbort(d, ctx, beaconID, state, options) (st, packet, err)
//@   trusted command handlers are checked through the DBState mutators they call; at the Command level only their argument matters
//@   modifies everything

//@ extern (*Process).signMessage(d, beaconID, packet, proposal) (md, err)
//@   trusted signs messageForSigning(...) with the node's long-term key; touches no DKG state
//@   modifies nothing
//@ func commandType(command) (r)
//@   props C08
//@   modifies nothing

//@ func (*Process).Command(d, ctx, command) (res, err)
//@   props C08 C14
//@   flags lockcheck
//@   call StartNetwork#0: assert [C08:command-initial-applies-to-fallback-state] fallbackState(d, command.Metadata.BeaconID, arg4) && nSaves(d.store) == old(nSaves(d.store))
//@   call StartProposal#0: assert [C08:command-reshare-applies-to-fallback-state] fallbackState(d, command.Metadata.BeaconID, arg4) && nSaves(d.store) == old(nSaves(d.store))
//@   call StartJoin#0: assert [C08:command-join-applies-to-fallback-state] fallbackState(d, command.Metadata.BeaconID, arg4)
//@   call StartAccept#0: assert [C08:command-accept-applies-to-fallback-state] fallbackState(d, command.Metadata.BeaconID, arg4)
//@   call StartReject#0: assert [C08:command-reject-applies-to-fallback-state] fallbackState(d, command.Metadata.BeaconID, arg4)
//@   call StartExecute#0: assert [C08:command-execute-applies-to-fallback-state] fallbackState(d, command.Metadata.BeaconID, arg4)
//@   call StartAbort#0: assert [C08:command-abort-applies-to-fallback-state] fallbackState(d, command.Metadata.BeaconID, arg3)

//@ func (*Process).applyPacketToState(d, beaconID, packet) (err)
//@   props C08 C09
//@   requires packet != nil && packet.Metadata != nil
//@   call Apply#0: assert [C08:terminal-attempt-falls-back-to-last-finished-epoch] (terminal(curOf(d.store, beaconID).State) ==> (finOf(d.store, beaconID) != nil ==> arg0 == finOf(d.store, beaconID)) && (finOf(d.store, beaconID) == nil ==> arg0.State == Fresh && arg0.Epoch == 0 && arg0.FinalGroup == nil)) && (!terminal(curOf(d.store, beaconID).State) ==> arg0 == curOf(d.store, beaconID))
//@   call SaveCurrent#0: assert [C09:state-saved-only-after-signature-check-over-the-applied-terms] msgVerified(packet, termsOfState(arg2)) && arg2 != nil
//@   call SaveCurrent#0: assert [C08:nothing-saved-before-validation] nSaves(d.store) == old(nSaves(d.store))
//@   call gossip#0: assert [C09:gossip-only-after-save] nSaves(d.store) == old(nSaves(d.store)) + 1
//@   ensures [C08:rejected-packet-saves-nothing] err != nil ==> nSaves(d.store) == old(nSaves(d.store)) && curOf(d.store, beaconID) == old(curOf(d.store, beaconID)) && finOf(d.store, beaconID) == old(finOf(d.store, beaconID))
//@   ensures [C08:packet-never-touches-finished-record] finOf(d.store, beaconID) == old(finOf(d.store, beaconID))

//@ extern (*Process).startDKGExecution(d, ctx, beaconID, current, config) (out, err)
//@   trusted runs kyber's DKG protocol (goroutines, network); it never calls the DKG store (checked by grep: no d.store use in its body)
//@   modifies nothing
//@   ensures err == nil ==> out != nil

//@ func (*Process).executeAndFinishDKG(d, ctx, beaconID, config) (err)
//@   props C08 C13
//@   call SaveFinished#0: assert [C08:finished-record-written-only-for-a-complete-epoch] arg2 != nil && arg2.State == Complete && arg2.FinalGroup != nil && arg2.KeyShare != nil
//@   call SaveFinished#0: assert [C08:completion-moves-from-executing] arg2 == curOf(d.store, beaconID) && nSaves(d.store) == old(nSaves(d.store))
//@   call SaveCurrent#0: assert [C08:failed-attempt-stays-in-the-current-bucket] arg2 != nil && arg2.State == Failed && finOf(d.store, beaconID) == old(finOf(d.store, beaconID))
//@   ensures [C08:failed-attempt-keeps-last-completed-epoch] nSaves(d.store) == old(nSaves(d.store)) ==> finOf(d.store, beaconID) == old(finOf(d.store, beaconID))

// ---- C14: no DKG message can wedge the node -------------------------------------------

//@ extern (*Process).executeDKG(d, ctx, beaconID, executionStartTime) (err)
//@   trusted starts the execution goroutine; lock behaviour checked on its own
//@   modifies everything

// pbvalid: the top-level request of a handler may be anything protobuf can decode: nested message pointers and
// oneof wrappers may be nil. Node state reachable from the receiver is well-formed (non-nil logger, maps, store).
//@ func (*Process).Packet(d, ctx, packet) (res, err)
//@   props C14
//@   flags lockcheck nopanic recovered
//@   requires [C14] d.log != nil && d.store != nil

//@ func (*Process).BroadcastDKG(d, ctx, packet) (res, err)
//@   props C14
//@   flags lockcheck nopanic recovered
//@   requires [C14] d.log != nil

// ---- C15: the DKG database holds the key share of every finished epoch -------------------------------------
//@ extern go.etcd.io/bbolt.Open(path, mode, options) (db, err)
//@   trusted bbolt: creates the database file with the given mode (masked by umask)
//@   modifies fexists(path), fmode(path), fcontent(path)
//@   ensures err == nil ==> db != nil && fexists(path) && (!old(fexists(path)) ==> fmode(path) == newMode(mode))

//@ func NewDKGStore(baseFolder) (s, err)
//@   props C15
//@   call Open#0: assert [C15:dkg-database-is-created-owner-only] arg1 % 64 == 0
