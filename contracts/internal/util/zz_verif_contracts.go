//go:build verif

// Contracts for package util. Comment-only file: adds no code.

package util

//@ func Contains(haystack, needle) (r)
//@   props C08 C09
//@   modifies nothing

//@ func EqualParticipant(p1, p2) (r)
//@   props C08 C09
//@   modifies nothing

//@ func NonEmpty(p) (r)
//@   props C08
//@   modifies nothing

//@ extern Without(haystack, needle) (r)
//@   trusted in-place filter over the backing array of haystack (aliasing through append is outside the verified subset): result is nil or a prefix-view of haystack's backing; only elements of haystack change
//@   modifies elems(haystack)
//@   ensures len(r) <= len(haystack)

//@ extern Filter(arr, predicate) (r)
//@   trusted generic filter: builds a new slice from arr, modifies nothing
//@   modifies nothing
//@   ensures len(r) <= len(arr)

//@ extern Cont(haystack, needle) (r)
//@   trusted generic membership test over a slice of comparable values (three-line loop)
//@   modifies nothing
//@   ensures r <==> (exists i int :: 0 <= i && i < len(haystack) && haystack[i] == needle)

//@ extern Concat(arrs) (r)
//@   trusted generic concatenation into a fresh slice (four-line append loop): every element of the result is an element of one of the arguments
//@   modifies nothing
//@   ensures forall i int :: 0 <= i && i < len(r) ==> (exists a int, j int :: 0 <= a && a < len(arrs) && 0 <= j && j < len(arrs[a]) && r[i] == arrs[a][j])

//@ extern (*FanOutChan).Chan(f) (c)
//@   trusted accessor of the fan-out channel
//@   modifies nothing

// ContainsAll(haystack, needles): every needle's address occurs among the haystack's addresses.
//@ func ContainsAll(haystack, needles) (r)
//@   props C08 C09
//@   modifies nothing
//@   loop 0: invariant [C08,C09:address-set-holds-exactly-the-scanned-haystack-addresses] -1 <= rangeindex0 && rangeindex0 < len(haystack) && isnew(found) && (forall a string :: has(found, a) && found[a] ==> (exists i int :: 0 <= i && i <= rangeindex0 && haystack[i].Address == a))
//@   loop 1: invariant [C08,C09:every-scanned-needle-address-is-in-the-haystack] -1 <= rangeindex1 && rangeindex1 < len(needles) && (forall a string :: has(found, a) && found[a] ==> (exists i int :: 0 <= i && i < len(haystack) && haystack[i].Address == a)) && (forall j int :: 0 <= j && j <= rangeindex1 ==> (exists i int :: 0 <= i && i < len(haystack) && haystack[i].Address == needles[j].Address))
//@   ensures [C08,C09:contains-all-means-every-needle-address-is-a-haystack-address] r ==> (forall j int :: 0 <= j && j < len(needles) ==> (exists i int :: 0 <= i && i < len(haystack) && haystack[i].Address == needles[j].Address))
