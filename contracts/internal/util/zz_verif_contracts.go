//go:build verif

// Contracts for package util. Comment-only file: adds no code.

package util

//@ func Contains(haystack, needle) (r)
//@   props C08 C09
//@   modifies nothing

//@ func EqualParticipant(p1, p2) (r)
//@   props C08 C09
//@   modifies nothing

//@ func NonEmpty(p) (r)
//@   props C08
//@   modifies nothing

//@ extern Without(haystack, needle) (r)
//@   trusted in-place filter over the backing array of haystack (aliasing through append is outside the verified subset): result is nil or a prefix-view of haystack's backing; only elements of haystack change
//@   modifies elems(haystack)
//@   ensures len(r) <= len(haystack)

//@ extern Filter(arr, predicate) (r)
//@   trusted generic filter: builds a new slice from arr, modifies nothing
//@   modifies nothing
//@   ensures len(r) <= len(arr)

//@ extern Cont(haystack, needle) (r)
//@   trusted generic membership test over a slice of comparable values (three-line loop)
//@   modifies nothing
//@   ensures r <==> (exists i int :: 0 <= i && i < len(haystack) && haystack[i] == needle)

//@ extern Concat(arrs) (r)
//@   trusted generic concatenation into a fresh slice
//@   modifies nothing

//@ extern (*FanOutChan).Chan(f) (c)
//@   trusted accessor of the fan-out channel
//@   modifies nothing
