//go:build verif

// Contracts for package core. Comment-only file: adds no code.
// Read by /verif/govc; see /verif/DESIGN.md §4.

package core

// ---- C19: requests reach only the beacon chain they name --------------------

//@ pred isDefaultID(x) := x == "default" || x == ""
//@ pred sameID(a, b) := (isDefaultID(a) && isDefaultID(b)) || a == b
//@ pred canonID(x) := ite(isDefaultID(x), "default", x)
//@ pred mdHash(md) := ite(md == nil, nil, md.ChainHash)
//@ pred mdID(md) := ite(md == nil, "", md.BeaconID)

// routed(dd, h, id, res): res is the beacon id that the pair (chain hash h, beacon id id) names on daemon dd
// (transcribed from the property statement, not from the code).
//@ pred routedKnownHash(dd, h, id, res) := len(h) != 0 && has(dd.chainHashes, hexOf(h)) ==> res == canonID(dd.chainHashes[hexOf(h)]) && (id == "" || sameID(id, res))
//@ pred routedUnknownHash(dd, h, id, res) := len(h) != 0 && !has(dd.chainHashes, hexOf(h)) ==> res == canonID(id) && has(dd.beaconProcesses, res) && dd.beaconProcesses[res] != nil && dd.beaconProcesses[res].group == nil
//@ pred routedNoHash(dd, h, id, res) := len(h) == 0 ==> res == canonID(id)

//@ func (*DrandDaemon).readBeaconID(dd, metadata) (res, err)
//@   props C19 C14
//@   flags lockcheck
//@   modifies metadata.BeaconID
//@   loop 0: invariant [C19:loop-keeps-daemon-read-lock] onlyRLocked(dd.state) && nowlocks()
//@   ensures [C19:known-hash-selects-its-chain] err == nil ==> routedKnownHash(dd, old(mdHash(metadata)), old(mdID(metadata)), res)
//@   ensures [C19:mismatching-id-hash-pair-rejected] len(old(mdHash(metadata))) != 0 && has(dd.chainHashes, hexOf(old(mdHash(metadata)))) && old(mdID(metadata)) != "" && !sameID(old(mdID(metadata)), dd.chainHashes[hexOf(old(mdHash(metadata)))]) ==> err != nil
//@   ensures [C19:unknown-hash-only-for-chain-without-group] err == nil ==> routedUnknownHash(dd, old(mdHash(metadata)), old(mdID(metadata)), res)
//@   ensures [C19:no-hash-goes-to-named-or-default-chain] len(old(mdHash(metadata))) == 0 ==> err == nil && res == canonID(old(mdID(metadata)))
//@   ensures [C19:error-returns-no-id] err != nil ==> res == ""

//@ func (*DrandDaemon).getBeaconProcessByID(dd, beaconID) (bp, err)
//@   props C19 C14
//@   flags lockcheck
//@   modifies nothing
//@   ensures [C19:lookup-is-exact] err == nil ==> has(dd.beaconProcesses, beaconID) && bp == dd.beaconProcesses[beaconID]
//@   ensures [C19:unknown-id-refused] !has(dd.beaconProcesses, beaconID) ==> err != nil && bp == nil

//@ func (*DrandDaemon).getBeaconProcessFromRequest(dd, metadata) (bp, err)
//@   props C19
//@   modifies metadata.BeaconID
//@   ensures [C19:request-served-by-named-chain-known-hash] err == nil && len(old(mdHash(metadata))) != 0 && has(dd.chainHashes, hexOf(old(mdHash(metadata)))) ==> bp == dd.beaconProcesses[canonID(dd.chainHashes[hexOf(old(mdHash(metadata)))])] && has(dd.beaconProcesses, canonID(dd.chainHashes[hexOf(old(mdHash(metadata)))]))
//@   ensures [C19:request-served-by-named-chain-no-hash] err == nil && len(old(mdHash(metadata))) == 0 ==> bp == dd.beaconProcesses[canonID(old(mdID(metadata)))] && has(dd.beaconProcesses, canonID(old(mdID(metadata))))
//@   ensures [C19:request-served-by-named-chain-unknown-hash] err == nil && len(old(mdHash(metadata))) != 0 && !has(dd.chainHashes, hexOf(old(mdHash(metadata)))) ==> bp == dd.beaconProcesses[canonID(old(mdID(metadata)))] && bp.group == nil

//@ func (*DrandDaemon).RemoveBeaconProcess(dd, ctx, beaconID, bp)
//@   props C19 C14
//@   flags lockcheck
//@   requires bp != nil && (bp.group != nil ==> bp.group.Scheme != nil && bp.group.PublicKey != nil && common.validPeriod(bp.group.Period))
//@   modifies mapof(dd.beaconProcesses), mapof(dd.chainHashes), bp.group.GenesisSeed, tr(all), hkind(all)
//@   ensures [C19:removed-id-stops-resolving] !has(dd.beaconProcesses, canonID(beaconID))
//@   ensures [C19:removed-hash-stops-resolving] bp.group != nil ==> !has(dd.chainHashes, chain.groupHashStr(bp.group))
//@   ensures [C19:removed-default-alias-stops-resolving] isDefaultID(beaconID) ==> !has(dd.chainHashes, "default")
//@   ensures [C19:other-ids-keep-resolving] forall k string :: k != canonID(beaconID) ==> has(dd.beaconProcesses, k) == old(has(dd.beaconProcesses, k))
//@   ensures [C19:other-hashes-keep-resolving] forall k string :: !(bp.group != nil && k == chain.groupHashStr(bp.group)) && !(bp.group == nil && k == "") && !(isDefaultID(beaconID) && k == "default") ==> has(dd.chainHashes, k) == old(has(dd.chainHashes, k))

//@ func (*DrandDaemon).AddBeaconHandler(dd, ctx, beaconID, bp)
//@   props C19 C14
//@   flags lockcheck
//@   requires [C19,C14] bp != nil && dd.chainHashes != nil && dd.handler != nil && dd.handler.beacons != nil && bp.group != nil && bp.group.Scheme != nil && bp.group.PublicKey != nil && common.validPeriod(bp.group.Period)
//@   modifies mapof(dd.chainHashes), mapof(dd.handler.beacons), bp.group.GenesisSeed, tr(all), hkind(all)
//@   ensures [C19:hash-resolves-to-added-id] has(dd.chainHashes, chain.groupHashStr(bp.group)) && dd.chainHashes[chain.groupHashStr(bp.group)] == beaconID
//@   ensures [C19:default-alias-only-for-default-id] isDefaultID(beaconID) ==> has(dd.chainHashes, "default") && dd.chainHashes["default"] == beaconID
//@   ensures [C19:add-leaves-other-hashes] forall k string :: k != chain.groupHashStr(bp.group) && !(isDefaultID(beaconID) && k == "default") ==> has(dd.chainHashes, k) == old(has(dd.chainHashes, k)) && (has(dd.chainHashes, k) ==> dd.chainHashes[k] == old(dd.chainHashes[k]))
//@   ensures [C19:add-leaves-process-table] forall k string :: has(dd.beaconProcesses, k) == old(has(dd.beaconProcesses, k))

// ---- C19: every public / protocol endpoint hands the request to the process its metadata names -------
//@ pred servedBy(dd, h, id, bp) := (len(h) != 0 && has(dd.chainHashes, hexOf(h)) ==> bp == dd.beaconProcesses[canonID(dd.chainHashes[hexOf(h)])]) && (len(h) == 0 || !has(dd.chainHashes, hexOf(h)) ==> bp == dd.beaconProcesses[canonID(id)])
//@ pred reqMd(in) := ite(in == nil, nil, in.Metadata)

//@ func (*DrandDaemon).PartialBeacon(dd, ctx, in)
//@   props C19 C14
//@   flags lockcheck nopanic=C14 recovered
//@   call PartialBeacon#0: assert [C19:PartialBeacon-served-by-named-chain] servedBy(dd, old(mdHash(reqMd(in))), old(mdID(reqMd(in))), arg0)

//@ func (*DrandDaemon).PublicRand(dd, ctx, in)
//@   props C19 C14
//@   flags lockcheck nopanic=C14 recovered
//@   call PublicRand#0: assert [C19:PublicRand-served-by-named-chain] servedBy(dd, old(mdHash(reqMd(in))), old(mdID(reqMd(in))), arg0)

//@ func (*DrandDaemon).PublicRandStream(dd, in, stream)
//@   props C19 C14
//@   flags lockcheck nopanic=C14 recovered
//@   call PublicRandStream#0: assert [C19:PublicRandStream-served-by-named-chain] servedBy(dd, old(mdHash(reqMd(in))), old(mdID(reqMd(in))), arg0)

//@ func (*DrandDaemon).ChainInfo(dd, ctx, in)
//@   props C19 C14
//@   flags lockcheck nopanic=C14 recovered
//@   call ChainInfo#0: assert [C19:ChainInfo-served-by-named-chain] servedBy(dd, old(mdHash(reqMd(in))), old(mdID(reqMd(in))), arg0)

//@ func (*DrandDaemon).SyncChain(dd, in, stream)
//@   props C19 C14
//@   flags lockcheck nopanic=C14 recovered
//@   call SyncChain#0: assert [C19:SyncChain-served-by-named-chain] servedBy(dd, old(mdHash(reqMd(in))), old(mdID(reqMd(in))), arg0)

//@ func (*DrandDaemon).GetIdentity(dd, ctx, in)
//@   props C19 C14
//@   flags lockcheck nopanic=C14 recovered
//@   call GetIdentity#0: assert [C19:GetIdentity-served-by-named-chain] servedBy(dd, old(mdHash(reqMd(in))), old(mdID(reqMd(in))), arg0)

// ---- C13: what a restart does is decided by the completed record of the DKG database ---------------------------------
//@ func (*DrandDaemon).LoadBeaconFromStore(dd, ctx, beaconID, store) (bp, err)
//@   props C13
//@   call LoadGroup#0: assert [C13:group-file-migration-is-tried-only-without-a-completed-dkg-record] status != nil && status.Complete == nil
//@   call Load#0: assert [C13:beacon-is-loaded-only-with-a-completed-dkg-record-or-a-migrated-group-file] status.Complete != nil || g != nil

// groupFileOf / shareFileOf: the two files of a key store; groupEnc / shareEnc: their encodings; sameEpoch(g, s): the
// group file content g and the share file content s come from the same DKG output.
//@ ghost groupFileOf(ref) string
//@ ghost shareFileOf(ref) string
//@ ghost groupEnc(ref) bytes
//@ ghost shareEnc(ref) bytes
//@ ghost sameEpoch(bytes, bytes) bool
//@ iface (github.com/drand/drand/v2/common/key.Store).SaveGroup(s, g) (err)
//@   trusted file store: key.Save of the group into the store's group file (atomic replace, see key.Save under C13)
//@   modifies fexists(groupFileOf(s)), fmode(groupFileOf(s)), fcontent(groupFileOf(s))
//@   ensures err == nil ==> fcontent(groupFileOf(s)) == groupEnc(g)
//@   ensures err != nil ==> fcontent(groupFileOf(s)) == old(fcontent(groupFileOf(s)))
//@ iface (github.com/drand/drand/v2/common/key.Store).SaveShare(s, sh) (err)
//@   trusted file store: key.Save of the share into the store's share file
//@   modifies fexists(shareFileOf(s)), fmode(shareFileOf(s)), fcontent(shareFileOf(s))
//@   ensures err == nil ==> fcontent(shareFileOf(s)) == shareEnc(sh)
//@   ensures err != nil ==> fcontent(shareFileOf(s)) == old(fcontent(shareFileOf(s)))

//@ field Config.dkgCallback(self, ctx, group)
//@   trusted daemon callback (re-registers the HTTP handler); does not touch the key store
//@   modifies nothing

//@ func (*BeaconProcess).storeDKGOutput(bp, ctx, group, share) (err)
//@   props C13
//@   requires [C13] bp.opts != nil && groupFileOf(bp.store) != shareFileOf(bp.store)
//@   modifies bp.group, bp.share, bp.chainHash, group.GenesisSeed, tr(all), hkind(all), fexists(groupFileOf(bp.store)), fmode(groupFileOf(bp.store)), fcontent(groupFileOf(bp.store)), fexists(shareFileOf(bp.store)), fmode(shareFileOf(bp.store)), fcontent(shareFileOf(bp.store))
//@   requires [C13] sameEpoch(fcontent(groupFileOf(bp.store)), fcontent(shareFileOf(bp.store))) && sameEpoch(groupEnc(group), shareEnc(share))
//@   call SaveShare#0: assert [C13:a-crash-between-the-two-writes-leaves-group-and-share-of-one-epoch] sameEpoch(fcontent(groupFileOf(bp.store)), fcontent(shareFileOf(bp.store)))
//@   ensures [C13:a-stored-dkg-output-is-a-matching-group-and-share] err == nil ==> sameEpoch(fcontent(groupFileOf(bp.store)), fcontent(shareFileOf(bp.store)))

// ---- C07: a reshared group is accepted only if it keeps the chain's identity ------------------------------------------
//@ func (*BeaconProcess).validateGroupTransition(bp, oldGroup, newGroup) (err)
//@   props C07
//@   requires bp.log != nil && bp.opts != nil
//@   modifies oldGroup.GenesisSeed, newGroup.GenesisSeed
//@   ensures [C07:accepted-new-group-keeps-genesis-time-period-id-and-seed] err == nil && oldGroup != nil ==> newGroup.GenesisTime == oldGroup.GenesisTime && newGroup.Period == oldGroup.Period && common.canonID(newGroup.ID) == common.canonID(oldGroup.ID) && bytesEq(newGroup.GenesisSeed, oldGroup.GenesisSeed)
//@   ensures [C07:missing-new-group-is-rejected] oldGroup == nil && newGroup == nil ==> err != nil

// ---- C01: what the node persists at bootstrap and what it answers on the public gRPC interface -------------------------
// (the in-memory back-end starts from one beacon fetched from peers: it must be verified under the group key first)
//@ func (*BeaconProcess).storeCurrentFromPeerNetwork(bp, ctx, store) (err)
//@   props C01
//@   requires bp.opts != nil && bp.log != nil && bp.opts.clock != nil
//@   requires bp.group != nil ==> bp.group.Scheme != nil && bp.group.PublicKey != nil && common.validPeriod(bp.group.Period) && common.validGenesis(bp.group.GenesisTime)
//@   call Put#0: assert [C01:bootstrap-writes-the-genesis-beacon-only-when-peers-report-round-zero] targetBeacon.Round == 0
//@   call Put#1: assert [C01:bootstrap-stores-only-a-beacon-verified-under-the-group-key] arg2 != nil && arg2.Round >= 1 && crypto.validSig(chain.keyOf(bp.group.PublicKey), crypto.digestOf(bp.group.Scheme, arg2.Round, arg2.PreviousSig), arg2.Signature)

// A successful answer to a request for round r is the beacon read for round r (from the store, or - for the round about
// to be produced - the one the live callback hands over: channel invariant on the hand-over channel `waitlist`).
//@ pred reqRound(in) := ite(in == nil, 0, in.Round)
//@ extern crypto/rand.Read(b) (n, err)
//@   trusted fills b with random bytes; touches no state of the functions under contract
//@   modifies nothing
//@ func (*BeaconProcess).PublicRand(bp, ctx, in) (res, err)
//@   props C01
//@   requires [C01] bp.log != nil && bp.opts != nil && (bp.beacon != nil ==> bp.beacon.chain != nil && bp.beacon.chain.CallbackStore != nil) && bp.group != nil
//@   chan waitlist: invariant [C01:only-the-awaited-round-is-handed-to-the-waiting-request] elem != nil && elem.Round == wanted
//@   call beaconToProto#0: assert [C01:the-answer-is-built-from-the-beacon-of-the-requested-round] arg0 != nil && (wanted > 0 ==> arg0.Round == wanted)
//@   ensures [C01:a-successful-answer-to-a-request-for-round-r-is-round-r] err == nil && old(reqRound(in)) > 0 ==> res != nil && res.Round == old(reqRound(in))
//@   ensures [C01:the-answer-carries-the-fields-of-the-beacon-read] err == nil ==> res != nil && beaconResp != nil && res.Round == beaconResp.Round && res.Signature == beaconResp.Signature && res.PreviousSignature == beaconResp.PreviousSig

// the live callback of a waiting PublicRand request (invoked by the callback store's worker with a stored beacon; a nil
// beacon is passed only when the same callback id is registered again, which the random id excludes: assumption)
//@ func (*BeaconProcess).PublicRand$1(b, closed)
//@   props C01
//@   requires b != nil
//@   chan waitlist: invariant [C01:only-the-awaited-round-is-handed-to-the-waiting-request] elem != nil && elem.Round == wanted

//@ func beaconToProto(b) (p)
//@   props C01 C20
//@   requires b != nil
//@   modifies nothing
//@   ensures [C20:public-answer-is-fieldwise-the-beacon] p != nil && isnew(p) && p.Round == b.Round && p.Signature == b.Signature && p.PreviousSignature == b.PreviousSig

// public stream and the client proxy used by the HTTP server: what is sent carries the packet's round, signature and
// previous signature unchanged and randomness = SHA-256(signature)
// nfail(s): how many sends on the gRPC stream s have failed so far (ghost counter maintained by the contract of Send)
//@ ghostfield nfail(ref) int
//@ iface (github.com/drand/drand/v2/protobuf/drand.Public_PublicRandStreamServer).Send(s, r) (err)
//@   trusted gRPC server stream: transmits the message it is given or fails; a failure is counted
//@   modifies nfail(s)
//@   ensures (err != nil ==> nfail(s) == old(nfail(s)) + 1) && (err == nil ==> nfail(s) == old(nfail(s)))
//@ func (*proxyStream).Send(p, b) (err)
//@   props C01 C11
//@   requires b != nil
//@   ensures [C11:a-send-that-failed-on-the-public-stream-is-reported-as-a-failure] nfail(p.Public_PublicRandStreamServer) != old(nfail(p.Public_PublicRandStreamServer)) ==> err != nil
//@   call Send#0: assert [C01,C11:public-stream-item-is-the-packet-with-randomness-sha256-of-its-signature] arg1 != nil && arg1.Round == b.Round && arg1.Signature == b.Signature && arg1.PreviousSignature == b.PreviousSignature && arg1.Randomness == digest(256, b.Signature)

//@ iface (github.com/drand/drand/v2/protobuf/drand.PublicServer).PublicRand(s, ctx, in) (res, err)
//@   trusted the node's own public service (DrandDaemon.PublicRand -> BeaconProcess.PublicRand, verified under C01 / C19): a successful answer to a request for round r > 0 is round r
//@   modifies nothing
//@   ensures err == nil ==> res != nil && (in.Round > 0 ==> res.Round == in.Round)
//@ func (*drandProxy).Get(d, ctx, round) (res, err)
//@   props C01
//@   ensures [C01:proxy-answer-is-the-requested-round-with-randomness-sha256-of-its-signature] err == nil ==> typeis(res, "*github.com/drand/drand/v2/protobuf/drand.PublicRandResponse") && as(res, "*github.com/drand/drand/v2/protobuf/drand.PublicRandResponse").Randomness == digest(256, as(res, "*github.com/drand/drand/v2/protobuf/drand.PublicRandResponse").Signature) && (round > 0 ==> as(res, "*github.com/drand/drand/v2/protobuf/drand.PublicRandResponse").Round == round)

// ---- C07: the group a reshare hands over is validated against the group the node is RUNNING, then stored, then armed ----
//@ func (*BeaconProcess).transitionToNext(bp, ctx, dkgOutput) (err)
//@   props C07
//@   requires dkgOutput != nil && bp.log != nil && bp.opts != nil
//@   requires [C07] bp.beacon != nil ==> beacon.wfTransition(bp.beacon, dkgOutput.New.FinalGroup)
//@   call validateGroupTransition#0: assert [C07:the-new-group-is-validated-against-the-group-the-node-is-running] arg1 == bp.group && arg2 == dkgOutput.New.FinalGroup && newShare == dkgOutput.New.KeyShare
//@   call storeDKGOutput#0: assert [C07:the-group-and-share-stored-are-the-validated-ones] arg2 == newGroup && arg3 == newShare
//@   call TransitionNewGroup#0: assert [C07:the-group-and-share-armed-are-the-validated-ones] arg2 == newShare && arg3 == newGroup

// ---- C14: the daemon's routing tables are maps shared between the gRPC handlers and the control API -------------------------
// Go maps are not safe for concurrent use: a read racing with LoadBeacon / Stop writing the table is a fatal runtime error
// ("concurrent map read and map write") that no recovery interceptor contains. Every access has to hold dd.state.
//@ guarded DrandDaemon.beaconProcesses by state
//@ guarded DrandDaemon.chainHashes by state

//@ iface (github.com/drand/drand/v2/protobuf/dkg.DKGControlServer).Command(s, ctx, c) (r, err)
//@   trusted the DKG process (dkg.Process.Command is verified under C08 / C14)
//@   modifies nothing
//@ iface (github.com/drand/drand/v2/protobuf/dkg.DKGControlServer).Packet(s, ctx, p) (r, err)
//@   trusted the DKG process (dkg.Process.Packet is verified under C14)
//@   modifies nothing
//@ iface (github.com/drand/drand/v2/protobuf/dkg.DKGControlServer).BroadcastDKG(s, ctx, p) (r, err)
//@   trusted the DKG process (dkg.Process.BroadcastDKG is verified under C14)
//@   modifies nothing
//@ iface (github.com/drand/drand/v2/protobuf/dkg.DKGControlServer).DKGStatus(s, ctx, r) (res, err)
//@   trusted the DKG process
//@   modifies nothing

//@ func (*DrandDaemon).Packet(dd, ctx, packet) (res, err)
//@   props C14
//@   flags lockcheck nopanic recovered
//@   requires [C14] dd.dkg != nil
//@ func (*DrandDaemon).BroadcastDKG(dd, ctx, packet) (res, err)
//@   props C14
//@   flags lockcheck nopanic recovered
//@   requires [C14] dd.dkg != nil
//@ func (*DrandDaemon).DKGStatus(dd, ctx, request) (res, err)
//@   props C14
//@   flags lockcheck nopanic recovered
//@   requires [C14] dd.dkg != nil
//@ func (*DrandDaemon).KeypairFor(dd, beaconID) (kp, err)
//@   props C14
//@   flags lockcheck nopanic recovered
// ---- C10: follow mode pins the operator's chain hash and retries after a failed attempt -----------------------------------
// The retry loop hands the result of each Sync attempt over a channel: the goroutine that runs the attempt requires
// that channel to exist (checked where the goroutine is started), and never operates on a nil channel.
//@ func (*BeaconProcess).StartFollowChain$2()
//@   props C10
//@   flags nilchan
//@   requires [C10:the-attempt-result-channel-exists] errChan != nil
// every attempt gets a context of its own: one this function has cancelled already (the previous attempt's) would make
// Sync return at once without asking any peer, for ever. (ctxDone of a derived context: done when its parent was done at
// creation, or once its cancel function has been called.)
//@   requires [C10:an-attempt-runs-with-a-context-this-function-has-not-cancelled] ctxDone(syncCtx) ==> ctxDone(ctx)
// [wf]: well-formedness assumption about the sync manager NewSyncManager returned (never an obligation of a caller)
//@   requires [wf] syncer != nil && beacon.syncConfigured(syncer)

//@ extern (*BeaconProcess).sendProgressCallback(bp, ctx, stream, upTo, info, clk) (cb, done)
//@   trusted builds the progress-reporting callback of the control API and its done channel; touches no store and no sync state
//@   modifies nothing

//@ func (*BeaconProcess).StartFollowChain(bp, ctx, req, stream) (err)
//@   props C10
//@   requires [C10] bp.log != nil && bp.opts != nil && bp.priv != nil && bp.priv.Public != nil
//@   call createDBStore#0: assert [C10:nothing-is-stored-before-the-peer-info-matched-the-pinned-chain-hash] bytesEq(chain.infoHashOf(info), hash) && info != nil
//@   call NewSyncManager#0: assert [C10:the-syncer-verifies-against-the-pinned-info] arg1 != nil && arg1.Info == info && bytesEq(chain.infoHashOf(info), hash)

// ---- C11: the public randomness stream runs the same routine as peer sync, on this chain's store, from the requested round
//@ func (*proxyRequest).GetFromRound(p) (r)
//@   props C11
//@   modifies nothing
//@   ensures [C11:public-stream-starts-at-the-requested-round] r == ite(p.PublicRandRequest == nil, 0, p.PublicRandRequest.Round)

//@ func (*BeaconProcess).PublicRandStream(bp, req, stream) (err)
//@   props C11 C12
//@   requires [C11] bp.log != nil && req != nil
// the stream routine returns only when the client goes away: no lock of the chain process may be held across it (a state
// writer queued behind a pinned read lock blocks every later reader: partials, public requests, sync)
//@   call SyncChain#0: assert [C12:the-public-stream-runs-without-holding-the-process-state-lock] !held(bp.state) && !rheld(bp.state)
//@   call SyncChain#0: assert [C11:public-stream-uses-this-chains-store-the-request-and-the-clients-stream] typeis(arg2, "*proxyRequest") && as(arg2, "*proxyRequest").PublicRandRequest == req && typeis(arg3, "*proxyStream") && as(arg3, "*proxyStream").Public_PublicRandStreamServer == stream && typeis(arg1, "*github.com/drand/drand/v2/internal/chain/beacon.chainStore") && as(arg1, "*github.com/drand/drand/v2/internal/chain/beacon.chainStore") == bp.beacon.chain

// ---- C19: the control endpoints that name a chain hand the request to exactly the process its metadata names ---------------
//@ func (*DrandDaemon).Status(dd, ctx, in)
//@   props C19
//@   call Status#0: assert [C19:Status-served-by-named-chain] servedBy(dd, old(mdHash(reqMd(in))), old(mdID(reqMd(in))), arg0)
//@ func (*DrandDaemon).PublicKey(dd, ctx, in)
//@   props C19
//@   call PublicKey#0: assert [C19:PublicKey-served-by-named-chain] servedBy(dd, old(mdHash(reqMd(in))), old(mdID(reqMd(in))), arg0)
//@ func (*DrandDaemon).GroupFile(dd, ctx, in)
//@   props C19
//@   call GroupFile#0: assert [C19:GroupFile-served-by-named-chain] servedBy(dd, old(mdHash(reqMd(in))), old(mdID(reqMd(in))), arg0)
//@ func (*DrandDaemon).BackupDatabase(dd, ctx, in)
//@   props C19
//@   call BackupDatabase#0: assert [C19:BackupDatabase-served-by-named-chain] servedBy(dd, old(mdHash(reqMd(in))), old(mdID(reqMd(in))), arg0)
//@ func (*DrandDaemon).StartFollowChain(dd, in, stream)
//@   props C19
//@   call StartFollowChain#0: assert [C19:StartFollowChain-served-by-named-chain] servedBy(dd, old(mdHash(reqMd(in))), old(mdID(reqMd(in))), arg0)
//@ func (*DrandDaemon).StartCheckChain(dd, in, stream)
//@   props C19
//@   call StartCheckChain#0: assert [C19:StartCheckChain-served-by-named-chain] servedBy(dd, old(mdHash(reqMd(in))), old(mdID(reqMd(in))), arg0)

// ---- C14: the version check runs in front of the recovery interceptor: it must not panic at all ------------------------
// NodeVersionValidator / NodeVersionStreamValidator are chained before grpcrecovery in the private listener, so a panic in
// them is not contained. For every request value (any type, typed-nil metadata, missing version, missing prerelease):
// no nil dereference, no failing type assertion. (No `recovered` flag: every panic point must be unreachable.)
//@ func (*DrandDaemon).NodeVersionValidator(dd, ctx, req, info, handler) (response, err)
//@   props C14
//@   flags lockcheck nopanic=C14
//@   requires [wf] dd.log != nil && handler != nil
//@ func (*DrandDaemon).NodeVersionStreamValidator(dd, srv, ss, info, handler) (err)
//@   props C14
//@   flags lockcheck nopanic=C14
//@   requires [wf] dd.log != nil && handler != nil
//@ iface (MetadataGetter).GetMetadata(m) (md)
//@   trusted generated protobuf getter: nil-safe on a typed nil receiver, changes nothing
//@   modifies nothing
//@ iface (github.com/drand/drand/v2/common/log.Logger).Named(l, s) (r)
//@   trusted the zap-backed logger: Named wraps the receiver into a new logger value, never nil
//@   modifies nothing
//@   ensures r != nil
//@ extern github.com/drand/drand/v2/common/tracer.NewSpan(ctx, name, opts) (c, span)
//@   trusted otel Tracer.Start returns a context and a span, both non-nil (also for the no-op provider)
//@   modifies nothing
//@   ensures c != nil && span != nil

// ---- C14: the chain-level endpoints behind the daemon's dispatch -----------------------------------------------------------
// (flags recovered: these run under the recovery interceptor of the private listener; a contained panic must leave no
// lock held. The handler object a started chain holds is well-formed as NewHandler builds it: assumed, [wf].)
//@ func (*BeaconProcess).PartialBeacon(bp, ctx, in) (res, err)
//@   props C14
//@   flags lockcheck nopanic=C14 recovered
//@   requires [wf] bp.beacon != nil ==> bp.beacon.l != nil && bp.beacon.chain != nil && bp.beacon.chain.CallbackStore != nil && bp.beacon.conf != nil && bp.beacon.conf.Clock != nil && bp.beacon.crypto != nil && bp.beacon.crypto.ThresholdScheme != nil && bp.beacon.crypto.group != nil && bp.beacon.crypto.DigestBeacon != nil
//@ func (*BeaconProcess).ChainInfo(bp, ctx, in) (res, err)
//@   props C14
//@   flags lockcheck nopanic=C14 recovered
//@ func (*BeaconProcess).SyncChain(bp, req, stream) (err)
//@   props C14 C12
//@   flags lockcheck nopanic=C14 recovered
//@   requires [wf] bp.log != nil
//@   call SyncChain#0: assert [C12:the-sync-stream-runs-without-holding-the-process-state-lock] !held(bp.state) && !rheld(bp.state)
//@ func (*BeaconProcess).GetIdentity(bp, ctx, in) (res, err)
//@   props C14
//@   flags lockcheck nopanic=C14 recovered

// ---- C14: lock discipline of every other function of the daemon that takes a lock (zero-annotation sweep) -------------
// Only `lockcheck`: every lock acquired is released on every path, no release of a lock not held, no acquisition of a
// lock a callee takes again. (Left out for cost or because they need well-formedness preconditions of other properties:
// newBeacon, Status, StartCheckChain, chainInfoFromPeers, DrandDaemon.init; DrandDaemon.Stop iterates the table of chains
// without dd.state: operator-triggered shutdown, outside the remote-request scope of C14, noted in DESIGN.md.)
//@ func (*BeaconProcess).Load(bp, ctx) (err)
//@   props C14
//@   flags lockcheck
//@ func (*BeaconProcess).Stop(bp, ctx)
//@   props C14
//@   flags lockcheck
//@ func (*BeaconProcess).StopBeacon(bp, ctx)
//@   props C14
//@   flags lockcheck
//@ func (*BeaconProcess).PublicKey(bp, ctx, in) (res, err)
//@   props C14
//@   flags lockcheck
//@ func (*BeaconProcess).GroupFile(bp, ctx, in) (res, err)
//@   props C14
//@   flags lockcheck
//@ func (*BeaconProcess).BackupDatabase(bp, ctx, req) (res, err)
//@   props C14
//@   flags lockcheck
//@ func NewDrandDaemon(ctx, c) (dd, err)
//@   props C14
//@   flags lockcheck
//@ func (*DrandDaemon).InstantiateBeaconProcess(dd, ctx, beaconID, store) (bp, err)
//@   props C14
//@   flags lockcheck
//@ func (*DrandDaemon).ListBeaconIDs(dd, ctx, in) (res, err)
//@   props C14
//@   flags lockcheck
