//go:build verif

// Contracts for package http (public HTTP API). Comment-only file: adds no code.
// Read by /verif/govc; see /verif/DESIGN.md §4.

package http

// ---- C19: HTTP paths under a chain hash serve only that chain -----------------

//@ pred handlerKey(h) := ite(hexOf(h) == "", "default", hexOf(h))

//@ func (*DrandHandler).getBeaconHandler(h, chainHash) (bh, err)
//@   props C19
//@   flags lockcheck
//@   modifies nothing
//@   ensures [C19:http-handler-lookup-is-exact] err == nil ==> has(h.beacons, handlerKey(chainHash)) && bh == h.beacons[handlerKey(chainHash)]
//@   ensures [C19:http-unknown-hash-refused] !has(h.beacons, handlerKey(chainHash)) ==> err != nil && bh == nil

//@ func (*DrandHandler).RegisterNewBeaconHandler(h, c, chainHash) (bh)
//@   props C19
//@   flags lockcheck
//@   requires h.beacons != nil
//@   modifies mapof(h.beacons)
//@   ensures [C19:http-register-binds-hash] has(h.beacons, chainHash) && h.beacons[chainHash] == bh && bh != nil
//@   ensures [C19:http-register-leaves-others] forall k string :: k != chainHash ==> has(h.beacons, k) == old(has(h.beacons, k)) && h.beacons[k] == old(h.beacons[k])

//@ func (*DrandHandler).RemoveBeaconHandler(h, chainHash)
//@   props C19
//@   flags lockcheck
//@   modifies mapof(h.beacons)
//@   ensures [C19:http-removed-hash-stops-resolving] !has(h.beacons, chainHash)
//@   ensures [C19:http-remove-leaves-others] forall k string :: k != chainHash ==> has(h.beacons, k) == old(has(h.beacons, k)) && h.beacons[k] == old(h.beacons[k])

//@ func (*DrandHandler).RegisterDefaultBeaconHandler(h, bh)
//@   props C19
//@   flags lockcheck
//@   requires h.beacons != nil
//@   modifies mapof(h.beacons)
//@   ensures [C19:http-default-alias] has(h.beacons, "default") && h.beacons["default"] == bh
//@   ensures [C19:http-default-leaves-others] forall k string :: k != "default" ==> has(h.beacons, k) == old(has(h.beacons, k)) && h.beacons[k] == old(h.beacons[k])
