//go:build verif

// Contracts for package http (public HTTP API). Comment-only file: adds no code.
// Read by /verif/govc; see /verif/DESIGN.md §4.

package http

// ---- C19: HTTP paths under a chain hash serve only that chain -----------------

//@ pred handlerKey(h) := ite(hexOf(h) == "", "default", hexOf(h))

//@ func (*DrandHandler).getBeaconHandler(h, chainHash) (bh, err)
//@   props C19
//@   flags lockcheck
//@   modifies nothing
//@   ensures [C19:http-handler-lookup-is-exact] err == nil ==> has(h.beacons, handlerKey(chainHash)) && bh == h.beacons[handlerKey(chainHash)]
//@   ensures [C19:http-unknown-hash-refused] !has(h.beacons, handlerKey(chainHash)) ==> err != nil && bh == nil

//@ func (*DrandHandler).RegisterNewBeaconHandler(h, c, chainHash) (bh)
//@   props C19
//@   flags lockcheck
//@   requires h.beacons != nil
//@   modifies mapof(h.beacons)
//@   ensures [C19:http-register-binds-hash] has(h.beacons, chainHash) && h.beacons[chainHash] == bh && bh != nil
//@   ensures [C19:http-register-leaves-others] forall k string :: k != chainHash ==> has(h.beacons, k) == old(has(h.beacons, k)) && h.beacons[k] == old(h.beacons[k])

//@ func (*DrandHandler).RemoveBeaconHandler(h, chainHash)
//@   props C19
//@   flags lockcheck
//@   modifies mapof(h.beacons)
//@   ensures [C19:http-removed-hash-stops-resolving] !has(h.beacons, chainHash)
//@   ensures [C19:http-remove-leaves-others] forall k string :: k != chainHash ==> has(h.beacons, k) == old(has(h.beacons, k)) && h.beacons[k] == old(h.beacons[k])

//@ func (*DrandHandler).RegisterDefaultBeaconHandler(h, bh)
//@   props C19
//@   flags lockcheck
//@   requires h.beacons != nil
//@   modifies mapof(h.beacons)
//@   ensures [C19:http-default-alias] has(h.beacons, "default") && h.beacons["default"] == bh
//@   ensures [C19:http-default-leaves-others] forall k string :: k != "default" ==> has(h.beacons, k) == old(has(h.beacons, k)) && h.beacons[k] == old(h.beacons[k])

// ---- C14: a client that hangs up cannot crash the watch loop --------------------------------------------------------
// A waiter that gives up removes its channel from bh.pending and closes it while holding bh.pendingLk (getRand), so a
// send to a pending channel is safe exactly while the lock is held.
//@ iface (github.com/drand/drand/v2/common/client.Watcher).Watch(c, ctx) (ch)
//@   trusted client library: opens a result stream; touches no state of the handler
//@   modifies nothing
//@ iface (github.com/drand/drand/v2/common/client.Client).Watch(c, ctx) (ch)
//@   trusted client library: opens a result stream; touches no state of the handler
//@   modifies nothing
//@ iface (github.com/drand/drand/v2/common/client.Result).GetRound(r) (n)
//@   trusted accessor
//@   modifies nothing
//@   ensures n == roundOf(r)
//@ extern github.com/nikkolasg/hexjson.Marshal(v) (b, err)
//@   trusted JSON encoding (byte fields as hex): a function of the value
//@   modifies nothing
//@   ensures b == jsonOf(v)

// roundOf(r): the round a client result reports; jsonOf(v): its JSON encoding
//@ ghost roundOf(iface) int
//@ ghost jsonOf(iface) bytes

// C01 (HTTP), monitor invariant of bh.pendingLk: requests wait only while the next round is known (latestRound != 0);
// a request joins only for latestRound+1 (getRand); whenever latestRound moves the list of waiters is emptied in the
// same critical section, and what the waiters are handed is the result of round latestRound+1 or nothing.
//@ func (*DrandHandler).watchWithTimeout(h, bh)
//@   props C14 C01
//@   flags lockcheck interleaved
//@   rely bh.latestRound, bh.pending
//@   requires bh != nil
//@   monitor bh.pendingLk: invariant [C01:requests-wait-only-while-the-next-round-is-known] len(bh.pending) == 0 || bh.latestRound != 0
//@   call GetRound#2: assert [C01:waiters-receive-the-round-they-wait-for-or-nothing] len(b) == 0 || bh.latestRound == 0 || roundOf(next) == bh.latestRound + 1 || (bh.latestRound == 18446744073709551615 && roundOf(next) == 0)
//@   call send#3: assert [C01:waiters-receive-the-encoded-result-of-the-stream-or-nothing] len(val) == 0 || val == jsonOf(next)
//@   call Unlock#1: assert [C01:the-waiter-list-is-emptied-whenever-the-latest-round-moves] len(bh.pending) == 0
//@   loop 0: invariant [C14:watch-loop-holds-no-lock-between-rounds] nowlocks() && norlocks()
//@   loop 1: invariant [C14:waiters-are-released-while-the-pending-lock-is-held] held(bh.pendingLk) && bh.latestRound == 0 && len(bh.pending) == 0
//@   loop 2: invariant [C14:waiters-are-notified-while-the-pending-lock-is-held] held(bh.pendingLk) && len(bh.pending) == 0
//@   call send#1: assert [C14:waiters-are-released-while-the-pending-lock-is-held] held(bh.pendingLk)
//@   call send#3: assert [C14:waiters-are-notified-while-the-pending-lock-is-held] held(bh.pendingLk)
//@   call send#1: assert [C01:waiters-of-a-broken-stream-are-released-empty-handed] len(val) == 0

// ---- C01 (HTTP): a request waits for the watch loop only for the round the loop delivers next -----------------------
// Monitor invariant of bh.pendingLk: every channel in bh.pending belongs to a request for round bh.latestRound+1; the
// watch loop hands the beacon of that round to all of them and empties the list before latestRound changes.
//@ iface (github.com/drand/drand/v2/common/client.Client).Get(c, ctx, round) (r, err)
//@   trusted client library
//@   modifies nothing
//@ extern (*sync.Once).Do(o, f)
//@   trusted runs the start function at most once; it touches neither the pending list nor latestRound (h.start only spawns the watch goroutine)
//@   modifies nothing

//@ func (*DrandHandler).getRand(h, ctx, chainHash, info, round) (b, err)
//@   props C01 C14
//@   flags lockcheck interleaved
//@   rely bh.latestRound, bh.pending
//@   monitor bh.pendingLk: invariant [C01:requests-wait-only-while-the-next-round-is-known] len(bh.pending) == 0 || bh.latestRound != 0
//@   requires h.log != nil && info != nil && common.validPeriod(info.Period) && common.validGenesis(info.GenesisTime)
// C14: the watch loop hands the next round to every waiter while it holds the pending lock, one send per waiter, then
// drops the list: that send must never wait (a waiter that is leaving needs the same lock), so every channel that joins
// the list has a free buffer slot
//@   call append#0: assert [C14:a-waiter-channel-has-a-buffer-slot-so-the-hand-over-under-the-lock-never-waits] cap(ch) >= 1
//@   call append#0: assert [C01:a-request-joins-the-waiters-only-for-the-round-delivered-next] held(bh.pendingLk) && bh.latestRound != 0 && (bh.latestRound + 1 == round || (bh.latestRound == 18446744073709551615 && round == 0))

// ---- C19 (HTTP): the chain hash of a path is the decoding of exactly the path segment; a malformed one is refused -------
//@ ghost urlParamOf(ref, string) string
//@ extern github.com/go-chi/chi/v5.URLParam(r, key) (v)
//@   trusted chi: the named segment of the matched route
//@   modifies nothing
//@   ensures v == urlParamOf(r, key)
//@ func readChainHash(r) (h, err)
//@   props C19
//@   modifies nothing
//@   ensures [C19:the-chain-hash-is-the-decoding-of-exactly-the-path-segment] err == nil && urlParamOf(r, chainHashParamKey) != "" ==> h == unhex(urlParamOf(r, chainHashParamKey))
//@   ensures [C19:no-path-segment-means-no-hash] err == nil && urlParamOf(r, chainHashParamKey) == "" ==> len(h) == 0

// ---- C01 / C19 (HTTP): every handler serves the chain whose hash the path names, and the round the path names ---------------
// (h is the local the hash of the path was decoded into; the body served is what the look-ups below returned)
// the chain info a handler works with comes from the node's own client: its period and genesis are in the domain of the
// round arithmetic (C16): assumption, introduced where the info is fetched
//@ iface (github.com/drand/drand/v2/common/client.Client).Info(c, ctx) (i, err)
//@   trusted client library: fetches the chain info; touches no state of the handler
//@   modifies nothing
//@ func (*DrandHandler).getChainInfo(h, ctx, chainHash) (info, err)
//@   props C19
//@   flags lockcheck
//@   defines err == nil ==> info != nil && common.validPeriod(info.Period) && common.validGenesis(info.GenesisTime)
//@   ensures [C19:fetching-chain-info-leaves-the-handler-configuration-alone] h.log == old(h.log) && h.timeout == old(h.timeout)
//@   call getBeaconHandler#0: assert [C19:chain-info-is-read-from-the-handler-of-the-hash-given] arg1 == chainHash

//@ func (*DrandHandler).PublicRand(h, w, r)
//@   props C01 C19 C14
//@   flags lockcheck nopanic=C14 recovered
//@   requires [wf] h.log != nil
//@   call getBeaconHandler#0: assert [C19:http-round-request-is-looked-up-under-the-hash-of-its-path] arg1 == chainHashHex
//@   call getChainInfo#0: assert [C19:http-round-request-reads-the-info-of-the-chain-of-its-path] arg2 == chainHashHex
//@   call getRand#0: assert [C01,C19:http-round-request-fetches-the-round-and-chain-of-its-path] arg2 == chainHashHex && arg3 == info && arg4 == roundN && roundN != 0
//@   call ServeContent#0: assert [C01:http-round-request-serves-what-the-fetch-returned] data != nil

//@ func (*DrandHandler).LatestRand(h, w, r)
//@   props C01 C19 C14
//@   flags lockcheck nopanic=C14 recovered
//@   requires [wf] h.log != nil
//@   call getBeaconHandler#0: assert [C19:http-latest-request-is-looked-up-under-the-hash-of-its-path] arg1 == chainHashHex
//@   call Get#0: assert [C01,C19:http-latest-request-asks-the-client-of-that-chain-for-the-latest-round] arg0 == bh.client && arg2 == 0
//@   call getChainInfo#0: assert [C19:http-latest-request-reads-the-info-of-the-chain-of-its-path] arg2 == chainHashHex

//@ func (*DrandHandler).ChainInfo(h, w, r)
//@   props C19 C14
//@   flags lockcheck nopanic=C14 recovered
//@   requires [wf] h.log != nil
//@   call getChainInfo#0: assert [C19:http-info-request-reads-the-info-of-the-chain-of-its-path] arg2 == chainHashHex

// the request / response objects of net/http carry no state of the handler tables or of the chain info
//@ pure (*net/http.Request).
//@ pure net/url.
//@ pure net/http.ServeContent
//@ pure (net/http.ResponseWriter).
//@ pure context.WithTimeout
//@ pure bytes.NewReader

// ---- C14: the table of chains served over HTTP is a Go map shared between the request handlers and the daemon ------------
// RegisterNewBeaconHandler / RemoveBeaconHandler write it under h.state while a chain is loaded or stopped; every handler
// that reads or iterates it has to hold h.state (an unsynchronised map access racing with a writer is a fatal runtime
// error that neither net/http's per-request recovery nor anything else contains).
// (flags recovered on the HTTP handlers: net/http recovers a panic of a handler per connection and keeps serving; what
// it cannot undo is a mutex left locked, which is what the no-panic obligations of these functions check.)
//@ guarded DrandHandler.beacons by state
//@ func (*DrandHandler).ChainHashes(h, w, r)
//@   props C14
//@   flags lockcheck nopanic=C14 recovered
//@ func (*DrandHandler).Health(h, w, r)
//@   props C14
//@   flags lockcheck nopanic=C14 recovered

// ---- C16: the HTTP server dates a round through the one schedule function -------------------------------------------------
// dateOfRound decides "this round does not exist yet" and the cache lifetime of an answer: it has to be the guarded
// TimeOfRound of the chain's own period and genesis (its own arithmetic on durations would wrap for huge round numbers).
//@ func dateOfRound(round, info) (t)
//@   props C16
//@   modifies nothing
//@   requires [wf] info != nil && common.validPeriod(info.Period) && common.validGenesis(info.GenesisTime)
//@   call TimeOfRound#0: assert [C16:the-http-server-dates-a-round-with-the-schedule-function] arg0 == info.Period && arg1 == info.GenesisTime && arg2 == round
//@   call Unix#0: assert [C16:the-date-of-a-round-is-the-scheduled-unix-time-or-the-error-value] arg1 == 0 && (round == 0 || arg0 == common.errVal() || arg0 == common.timeOf(info.Period, info.GenesisTime, round))
