//go:build verif

// Contracts for package chain (chain info). Comment-only file: adds no code.
// Read by /verif/govc; see /verif/DESIGN.md §4.

package chain

// ---- C17: the chain hash commits to exactly period, genesis time, public key, genesis seed and beacon id ----
//
// chainHashSpec(i): SHA-256 over be32(period seconds) ++ be64(genesis time) ++ marshal(public key) ++ genesis seed
//                   [++ id when the id is not the default one]   (transcribed from the property statement)

//@ pred idPart(i) := ite(i.ID == "default" || i.ID == "", nil, strBytes(i.ID))
//@ pred chainPre(i) := cat(cat(cat(cat(nil, enc(1, 4, i.Period / 1000000000)), enc(1, 8, i.GenesisTime)), marshalOf(i.PublicKey)), i.GenesisSeed)
//@ pred chainHashSpec(i) := ite(i.ID == "default" || i.ID == "", digest(256, chainPre(i)), digest(256, cat(chainPre(i), strBytes(i.ID))))

// the same hash expressed over the group a chain info is made from (used by the routing tables, C19)
//@ ghost keyOf(ref) ref
//@ extern (*github.com/drand/drand/v2/common/key.DistPublic).Key(d) (p)
//@   trusted first coefficient (the distributed public key point)
//@   modifies nothing
//@   ensures ref(p) == keyOf(d)
//@ pred groupPre(g) := cat(cat(cat(cat(nil, enc(1, 4, g.Period / 1000000000)), enc(1, 8, g.GenesisTime)), marshalOf(keyOf(g.PublicKey))), g.GenesisSeed)
//@ pred groupHashStr(g) := hexOf(ite(g.ID == "default" || g.ID == "", digest(256, groupPre(g)), digest(256, cat(groupPre(g), strBytes(g.ID)))))

// infoHashOf(i): the value Hash() returns for the info object i (assumption: the functions under contract do not change an
// Info between two calls of Hash, so the hash is a function of the object)
//@ ghost infoHashOf(ref) bytes
//@ func (*Info).Hash(i) (r)
//@   props C17 C20
//@   modifies tr(all), hkind(all)
//@   defines r == infoHashOf(i)
//@   ensures [C17:chain-hash-is-exactly-the-digest-of-its-five-parameters] common.validPeriod(i.Period) ==> r == chainHashSpec(i)

//@ func (*Info).HashString(i) (s)
//@   props C17
//@   modifies tr(all), hkind(all)
//@   ensures [C17:hash-string-is-hex-of-chain-hash] common.validPeriod(i.Period) ==> s == hexOf(chainHashSpec(i))

//@ func NewChainInfo(g) (i)
//@   props C17 C07
//@   modifies g.GenesisSeed
//@   ensures [C17,C07:chain-info-reads-only-chain-parameters-not-membership] i != nil && i.ID == g.ID && i.Period == g.Period && i.Scheme == g.Scheme.Name && i.GenesisTime == g.GenesisTime && i.GenesisSeed == g.GenesisSeed && ref(i.PublicKey) == keyOf(g.PublicKey)
//@   ensures [C17:chain-info-of-a-group-without-a-cached-seed-carries-the-computed-one] i.GenesisSeed != nil && (old(g.GenesisSeed) != nil ==> i.GenesisSeed == old(g.GenesisSeed))

//@ extern encoding/json.Unmarshal(data, v) (err)
//@   trusted decodes into the value v points to; touches nothing else reachable by the functions under contract except through v
//@   modifies everything

//@ func (*Info).UnmarshalJSON(i, data) (err)
//@   props C17 C20
//@   ensures [C17:decoded-info-with-mismatching-embedded-hash-is-rejected] err == nil && v2Str.ChainHash != "" && common.validPeriod(i.Period) ==> hexOf(chainHashSpec(i)) == v2Str.ChainHash
//@   ensures [C20:decoded-info-takes-fields-from-the-document] err == nil && !(v2Str.OldSchemeID != "" && v2Str.Scheme == "") ==> i.GenesisTime == v2Str.GenesisTime && i.Scheme == v2Str.Scheme && i.ID == v2Str.ID && i.GenesisSeed == v2Str.GenesisSeed

// ---- C17 lemmas over the transcript vocabulary (collision resistance and unambiguous framing assumed) -------
//@ axiom [C17] digest-injective: forall a bytes, b bytes {digest(256, a), digest(256, b)} :: digest(256, a) == digest(256, b) ==> bytesEq(a, b)
//@ axiom [C17] cat-right-cancel: forall a bytes, b bytes, c bytes {cat(a, c), cat(b, c)} :: bytesEq(cat(a, c), cat(b, c)) ==> bytesEq(a, b)
//@ axiom [C17] cat-left-cancel-fixed-width: forall a bytes, b bytes, c bytes, d bytes {cat(a, c), cat(b, d)} :: bytesEq(cat(a, c), cat(b, d)) && len(c) == len(d) ==> bytesEq(a, b) && bytesEq(c, d)
//@ axiom [C17] enc32-injective: forall o int, x int, y int {enc(o, 4, x), enc(o, 4, y)} :: 0 <= x && x < 4294967296 && 0 <= y && y < 4294967296 && bytesEq(enc(o, 4, x), enc(o, 4, y)) ==> x == y
//@ axiom [C17] enc64-injective: forall o int, x int, y int {enc(o, 8, x), enc(o, 8, y)} :: 0 <= x && x < 18446744073709551616 && 0 <= y && y < 18446744073709551616 && bytesEq(enc(o, 8, x), enc(o, 8, y)) ==> x == y
//@ lemma [C17] changing-the-period-changes-its-encoding: forall p1 uint32, p2 uint32 :: p1 != p2 ==> !bytesEq(enc(1, 4, p1), enc(1, 4, p2))
//@ lemma [C17] changing-genesis-time-changes-the-hash: forall p uint32, g1 int, g2 int :: 0 <= g1 && g1 < 4294967297 && 0 <= g2 && g2 < 4294967297 && g1 != g2 ==> digest(256, cat(cat(nil, enc(1, 4, p)), enc(1, 8, g1))) != digest(256, cat(cat(nil, enc(1, 4, p)), enc(1, 8, g2)))
//@ lemma [C17] changing-the-seed-changes-the-hash: forall pre bytes, s1 bytes, s2 bytes :: len(s1) == len(s2) && !bytesEq(s1, s2) ==> digest(256, cat(pre, s1)) != digest(256, cat(pre, s2))
//@ lemma [C17] changing-the-period-changes-the-hash: forall p1 uint32, p2 uint32, g int, k bytes, s bytes :: p1 != p2 ==> digest(256, cat(cat(cat(cat(nil, enc(1, 4, p1)), enc(1, 8, g)), k), s)) != digest(256, cat(cat(cat(cat(nil, enc(1, 4, p2)), enc(1, 8, g)), k), s))

// ---- C20 / C17: chain info wire form ---------------------------------------------------------------------------------------
//@ func InfoFromProto(p) (i, err)
//@   props C20 C17
//@   requires p != nil
//@   ensures [C20:decoded-chain-info-takes-its-fields-from-the-packet] err == nil ==> i != nil && i.GenesisTime == p.GenesisTime && i.GenesisSeed == p.GroupHash && (p.SchemeID != "" ==> i.Scheme == p.SchemeID) && i.ID == ite(p.Metadata == nil, "", p.Metadata.BeaconID) && pointVal(i.PublicKey) == p.PublicKey
//@   ensures [C20:decoded-chain-info-period-is-the-packets-seconds] err == nil ==> i.Period == p.Period * 1000000000
//@   ensures [C20:chain-info-with-an-unknown-scheme-is-rejected] p.SchemeID != "" && !crypto.knownScheme(p.SchemeID) ==> err != nil

//@ func (*Info).ToProto(i, metadata) (r)
//@   props C20 C17
//@   requires [C20,C17] i.PublicKey != nil
//@   modifies metadata.BeaconID, tr(all), hkind(all)
//@   ensures [C20:chain-info-packet-carries-the-fields-of-the-info] r != nil && r.GenesisTime == i.GenesisTime && r.GroupHash == i.GenesisSeed && r.SchemeID == i.Scheme && r.PublicKey == marshalOf(i.PublicKey) && r.Metadata != nil && r.Metadata.BeaconID == i.ID
//@   ensures [C17:chain-info-packet-carries-the-chain-hash-of-the-info] common.validPeriod(i.Period) ==> r.Hash == chainHashSpec(i)
//@   ensures [C20:chain-info-packet-period-in-seconds] common.validPeriod(i.Period) ==> r.Period * 1000000000 == i.Period
