//go:build verif

// Contracts for package key. Comment-only file: adds no code.

package key

//@ extern (*Group).GetGenesisSeed(g) (r)
//@   trusted lazily caches Hash() in g.GenesisSeed; touches nothing else
//@   modifies g.GenesisSeed
