//go:build verif

// Contracts for package key. Comment-only file: adds no code.

package key

//@ ghost groupHashOf(ref) bytes
//@ func (*Group).GetGenesisSeed(g) (r)
//@   props C17
//@   flags trustedframe
//@   trusted lazily caches Hash() in g.GenesisSeed; apart from that only the order of g.Nodes (sorted in place by Hash) changes
//@   modifies g.GenesisSeed
//@   ensures [C17:the-genesis-seed-is-the-cached-one-or-else-the-group-hash] r == g.GenesisSeed && r != nil && (old(g.GenesisSeed) != nil ==> r == old(g.GenesisSeed)) && (old(g.GenesisSeed) == nil ==> r == groupHashOf(g))

//@ func (*Group).Node(g, i) (n)
//@   props C03 C07
//@   modifies nothing
//@   loop 0: invariant [C03:node-scan-invariant] -1 <= rangeindex && rangeindex < len(g.Nodes) && (forall k int :: 0 <= k && k <= rangeindex ==> g.Nodes[k].Index != i)
//@   ensures [C03:node-lookup-returns-member-with-that-index] n != nil ==> n.Index == i && (exists k int :: 0 <= k && k < len(g.Nodes) && g.Nodes[k] == n)
//@   ensures [C03:absent-index-yields-nil] n == nil ==> (forall k int :: 0 <= k && k < len(g.Nodes) ==> g.Nodes[k].Index != i)

//@ func (*Group).Len(g) (n)
//@   props C03 C20
//@   modifies nothing
//@   ensures [C03,C20:len-is-the-node-count] n == len(g.Nodes)

// ---- C15 / C20 / C13: saving key material ---------------------------------------------------------------

//@ iface (Tomler).TOML(t) (v)
//@   trusted the TOML mirror structs are checked field by field under C20
//@   modifies nothing

//@ pred targetIntact(filePath) := fexists(filePath) == old(fexists(filePath)) && fcontent(filePath) == old(fcontent(filePath)) && fmode(filePath) == old(fmode(filePath))
//@ func Save(filePath, t, secure) (err)
//@   props C15 C20 C13
//@   modifies fexists(filePath), fmode(filePath), fcontent(filePath), fexists(filePath + ".tmp"), fmode(filePath + ".tmp"), fcontent(filePath + ".tmp")
//@   ensures [C15:secure-save-leaves-an-owner-only-file] secure && err == nil ==> fexists(filePath) && fmode(filePath) == 384
//@   ensures [C20:saved-file-holds-exactly-the-encoding-of-the-value] err == nil ==> (exists v iface :: fcontent(filePath) == tomlOf(v))
//@   ensures [C13:a-failed-save-leaves-the-previous-file-intact] err != nil ==> targetIntact(filePath)
//@   call Encode#0: assert [C20,C13:file-is-empty-when-encoding-starts] fcontent(filePath + ".tmp") == nil && pathOf(encWriter(arg0)) == filePath + ".tmp"
//@   call TOML#0: assert [C13:a-crash-while-saving-leaves-the-previous-file-intact] targetIntact(filePath)
//@   call Encode#0: assert [C13:a-crash-while-saving-leaves-the-previous-file-intact] targetIntact(filePath)
//@   call Sync#0: assert [C13:a-crash-while-saving-leaves-the-previous-file-intact] targetIntact(filePath)
//@   call Close#0: assert [C13:a-crash-while-saving-leaves-the-previous-file-intact] targetIntact(filePath)
//@   call Rename#0: assert [C13:a-crash-while-saving-leaves-the-previous-file-intact] targetIntact(filePath)
//@   call Rename#0: assert [C13:only-a-completely-written-file-is-moved-into-place] arg1 == filePath && (exists v iface :: fcontent(arg0) == tomlOf(v))

//@ func (*fileStore).SaveKeyPair(f, p) (err)
//@   props C15
//@   call Save#0: assert [C15:private-key-is-saved-securely] arg0 == f.privateKeyFile && arg2

//@ func (*fileStore).SaveShare(f, share) (err)
//@   props C15
//@   call Save#0: assert [C15:private-share-is-saved-securely] arg0 == f.shareFile && arg2

// ---- C20: decode-side checks of group encodings -----------------------------------------------------------

//@ extern github.com/drand/kyber/share/dkg.MinimumT(n) (r)
//@   trusted dependency: body is (n >> 1) + 1 (kyber v1.3.2 share/dkg/dkg.go)
//@   modifies nothing
//@   ensures n >= 0 ==> r == n / 2 + 1

//@ pure (github.com/drand/drand/v2/common/key.protoIdentity)
//@ pure net.SplitHostPort

//@ func StringToPoint(g, s) (p, err)
//@   props C20 C15
//@   modifies nothing
//@   ensures [C15:a-decoding-error-does-not-quote-the-encoded-key] err != nil ==> !quotes(err, s)

//@ func StringToScalar(g, s) (sc, err)
//@   props C15
//@   modifies nothing
//@   ensures [C15:a-decoding-error-does-not-quote-the-encoded-secret] err != nil ==> !quotes(err, s)

//@ func IdentityFromProto(n, targetScheme) (id, err)
//@   props C20
//@   modifies nothing
//@   ensures [C20:decoded-identity-is-bound-to-the-requested-scheme] err == nil ==> id != nil && isnew(id) && id.Scheme == targetScheme && targetScheme != nil
// pSelfSigned(n, scheme): the participant record n carries a key and a signature of that key that verifies under the
// scheme. Whether the identity decoded from n is self-signed is a function of n and the scheme (definition, trusted:
// decoding copies key and signature).
//@ ghost selfSigned(ref) bool
//@ ghost pSelfSigned(ref, ref) bool
//@   defines err == nil ==> (selfSigned(id) <==> pSelfSigned(n, targetScheme))

//@ func NodeFromProto(n, targetScheme) (node, err)
//@   props C20
//@   modifies nothing
//@   ensures [C20:decoded-node-carries-its-index] err == nil ==> node != nil && isnew(node) && node.Index == n.Index && node.Identity != nil && node.Identity.Scheme == targetScheme

//@ func (*Identity).FromTOML(i, t) (err)
//@   props C20
//@   modifies i.Scheme, i.Key, i.Addr, i.Signature
//@   ensures [C20:decoded-identity-scheme-is-known] err == nil ==> i.Scheme != nil && crypto.knownScheme(i.Scheme.Name) && i.Addr == as(t, "*PublicTOML").Address

//@ func (*Node).FromTOML(n, t) (err)
//@   props C20
//@   modifies n.Index, n.Identity, n.Identity.Scheme, n.Identity.Key, n.Identity.Addr, n.Identity.Signature
//@   ensures [C20:decoded-node-carries-its-index] err == nil ==> n.Index == as(t, "*NodeTOML").Index && n.Identity != nil
//@   ensures [C20:identity-is-reused-or-new] n.Identity == old(n.Identity) || isnew(n.Identity)

//@ func (*DistPublic).FromTOML(d, sch, i) (err)
//@   props C20
//@   modifies d.Coefficients
//@   ensures [C20:decoded-public-key-has-one-point-per-coefficient] err == nil ==> len(d.Coefficients) == len(as(i, "*DistPublicTOML").Coefficients)

//@ func (*Group).FromTOML(g, i) (err)
//@   props C20
//@   modifies g.Threshold, g.Scheme, g.Nodes, g.PublicKey, g.Period, g.CatchupPeriod, g.GenesisTime, g.TransitionTime, g.GenesisSeed, g.ID
//@   loop 0: invariant [C20:node-decode-loop-keeps-the-node-count] len(g.Nodes) == len(gt.Nodes) && g.Threshold == gt.Threshold && g.Scheme == sch
//@   ensures [C20:decoded-group-file-threshold-is-in-range] err == nil && i != nil ==> len(g.Nodes) / 2 + 1 <= g.Threshold && g.Threshold <= len(g.Nodes)
//@   ensures [C20:decoded-group-file-scheme-is-known] err == nil && i != nil ==> g.Scheme != nil && crypto.knownScheme(g.Scheme.Name) && (gt.SchemeID != "" ==> g.Scheme.Name == gt.SchemeID)
//@   ensures [C20:decoded-group-file-carries-its-fields] err == nil && i != nil ==> g.Threshold == gt.Threshold && g.GenesisTime == gt.GenesisTime && len(g.Nodes) == len(gt.Nodes) && (gt.TransitionTime != 0 ==> g.TransitionTime == gt.TransitionTime) && g.ID == common.canonID(gt.ID)

//@ func GroupFromProto(g, targetScheme) (group, err)
//@   props C20
//@   requires g != nil
//@   modifies nothing
//@   loop 0: invariant [C20:node-list-is-built-in-a-new-array] isnew(nodes)
//@   loop 1: invariant [C20:coefficient-list-is-built-in-a-new-array] isnew(dist.Coefficients)
//@   ensures [C20:decoded-group-packet-threshold-is-at-least-the-minimum] err == nil ==> group != nil && len(group.Nodes) / 2 + 1 <= group.Threshold
//@   ensures [C20:decoded-group-packet-threshold-is-at-most-the-node-count] err == nil ==> group.Threshold <= len(group.Nodes)
//@   ensures [C20:decoded-group-packet-scheme-is-known] err == nil ==> group.Scheme != nil && crypto.knownScheme(group.Scheme.Name) && group.Scheme.Name == g.SchemeID
//@   ensures [C20:decoded-group-packet-carries-its-fields] err == nil ==> group.Threshold == g.Threshold && (g.GenesisTime < 9223372036854775808 ==> group.GenesisTime == g.GenesisTime) && group.Period == g.Period * 1000000000 && group.CatchupPeriod == g.CatchupPeriod * 1000000000 && (g.TransitionTime < 9223372036854775808 ==> group.TransitionTime == g.TransitionTime) && (g.Metadata != nil ==> group.ID == g.Metadata.BeaconID)

//@ func (*Identity).Address(i) (r)
//@   props C08 C09
//@   modifies nothing
//@   ensures [C08,C09:address-accessor] r == i.Addr

// ---- C17: the group hash sorts the node list it hashes with a comparator over that same list --------------------------
// (sort.Slice's own precondition: less(i, j) must compare elements i and j of the slice being sorted; otherwise the
// hash depends on the order in which the nodes happen to be listed)
//@ func (*Group).Hash$1(i, j) (r)
//@   props C17
//@   modifies nothing
//@   ensures [C17:node-order-comparator-compares-the-indices-of-the-groups-nodes] r <==> g.Nodes[i].Index < g.Nodes[j].Index


// ---- C17: the group hash commits to the node list (sorted), threshold, genesis time, transition time, public key and id ----
//@ extern sort.Slice@github.com/drand/drand/v2/common/key(x, less)
//@   trusted sort.Slice: permutes the elements of the slice it is given in place (with the comparator checked above: by node index), touches nothing else
//@   modifies elems(asSlice(x, "[]*Node"))
//@ field hashFunc() (h)
//@   trusted blake2b-256: a fresh hash state (kind 2562), a new object
//@   modifies tr(all), hkind(all), nw(all)
//@   ensures h != nil && isnew(h) && tr(h) == nil && hkind(h) == 2562 && nw(h) == 0 && (forall o ref :: o != ref(h) ==> tr(o) == old(tr(o)) && hkind(o) == old(hkind(o)) && nw(o) == old(nw(o)))
//@ ghost nodeHashOf(ref) bytes
//@ ghost distPublicHashOf(ref) bytes
//@ axiom [C17] node-hash-length: forall n ref {nodeHashOf(n)} :: len(nodeHashOf(n)) == 32
//@ axiom [C17] dist-public-hash-length: forall n ref {distPublicHashOf(n)} :: len(distPublicHashOf(n)) == 32
//@ iface (github.com/drand/kyber.Marshaling).MarshalTo(p, w) (n, err)
//@   trusted kyber: writes the binary form of the point / scalar into the writer
//@   modifies tr(w)
//@   ensures tr(w) == cat(old(tr(w)), marshalOf(p))
// Node.Hash: blake2b-256 over the index (4 bytes, little endian) followed by the binary form of the node's key; nothing else.
//@ func (*Node).Hash(n) (r)
//@   props C17
//@   requires [wf] n.Identity != nil && n.Key != nil
//@   modifies nothing
//@   defines r == nodeHashOf(n)
//@   ensures [C17:node-hash-is-the-digest-of-index-and-key] r == digest(2562, cat(cat(nil, enc(0, 4, n.Index)), marshalOf(n.Key)))
// DistPublic.Hash: every coefficient, in order, is marshalled and written into the one blake2b state, one write per
// coefficient (nw counts the writes into a writer: scoped contract of Write for this package).
//@ ghostfield nw(ref) int
//@ iface (io.Writer).Write@github.com/drand/drand/v2/common/key(w, p) (n, err)
//@   trusted hash.Hash appends the bytes it is given (stdlib), never fails; nw counts the calls
//@   modifies tr(w), nw(w)
//@   ensures tr(w) == cat(old(tr(w)), p) && nw(w) == old(nw(w)) + 1
//@ func (*DistPublic).Hash(d) (r)
//@   props C17
//@   modifies nothing
//@   defines r == distPublicHashOf(d)
//@   loop 0: invariant [C17:coefficient-scan] -1 <= rangeindex0 && rangeindex0 < len(d.Coefficients) && hkind(h) == 2562 && nw(h) == rangeindex0 + 1 && isnew(h)
//@   call Write#0: assert [C17:every-coefficient-is-hashed-into-the-distributed-key-hash] arg0 == h && arg1 == marshalOf(c) && c == d.Coefficients[rangeindex0 + 1]
//@   ensures [C17:the-distributed-key-hash-has-one-write-per-coefficient] r == digest(2562, tr(h)) && nw(h) == len(d.Coefficients)
// What is written into the group hash, in source order, all into the same hash state h: every node of the sorted list, the
// threshold (4 bytes), the genesis time (8 bytes), the transition time when it is set, the hash of the distributed public key
// when there is one, the id when it is not the default one. A write that disappears or changes place makes the clauses
// below unattachable or false; the length clause pins the conditions under which the optional writes happen and that the
// scan covers the whole list (32 bytes per node and for the public key: trusted output length of blake2b-256).
//@ func (*Group).Hash(g) (r)
//@   props C17
//@   loop 0: invariant [C17:node-hash-scan] -1 <= rangeindex0 && rangeindex0 < len(g.Nodes) && hkind(h) == 2562 && len(tr(h)) == 32 * (rangeindex0 + 1)
//@   call Write#0: assert [C17:every-node-of-the-sorted-list-is-hashed-into-the-group-hash] arg0 == h && arg1 == nodeHashOf(n) && n == g.Nodes[rangeindex0 + 1]
//@   call Write#1: assert [C17:the-threshold-is-hashed-into-the-group-hash] ref(arg0) == ref(h) && typeis(arg2, "uint32") && (0 <= g.Threshold && g.Threshold < 4294967296 ==> ref(arg2) == g.Threshold)
//@   call Write#2: assert [C17:the-genesis-time-is-hashed-into-the-group-hash] ref(arg0) == ref(h) && typeis(arg2, "uint64") && (g.GenesisTime >= 0 ==> ref(arg2) == g.GenesisTime)
//@   call Write#3: assert [C17:the-transition-time-is-hashed-into-the-group-hash-when-set] ref(arg0) == ref(h) && typeis(arg2, "int64") && ref(arg2) == g.TransitionTime && g.TransitionTime != 0
//@   call Write#4: assert [C17:the-distributed-public-key-is-hashed-into-the-group-hash] arg0 == h && g.PublicKey != nil && arg1 == distPublicHashOf(g.PublicKey)
//@   call Write#5: assert [C17:a-non-default-id-is-hashed-into-the-group-hash] arg0 == h && arg1 == strBytes(g.ID) && g.ID != "default" && g.ID != ""
//@   defines r == groupHashOf(g)
//@   ensures [C17:the-group-hash-is-the-digest-of-what-was-written] r == digest(2562, tr(h))
//@   ensures [C17:the-group-hash-is-never-nil] r != nil
//@   ensures [C17:the-group-hash-covers-every-node-both-fixed-terms-and-exactly-the-optional-terms-that-are-set] len(tr(h)) == 32 * len(g.Nodes) + 12 + ite(g.TransitionTime != 0, 8, 0) + ite(g.PublicKey != nil, 32, 0) + ite(g.ID != "default" && g.ID != "", len(g.ID), 0)
//@   call Slice#0: assert [C17:the-list-that-is-sorted-is-the-list-the-comparator-reads] asSlice(arg0, "[]*Node") == g.Nodes

// ---- C20: encode side of the group wire form -------------------------------------------------------------------------------
//@ func (*Group).ToProto(g, version) (out)
//@   props C20
//@   requires [C20] g.Scheme != nil
//@   loop 0: invariant [C20:group-packet-node-scan] -1 <= rangeindex0 && rangeindex0 < len(g.Nodes) && len(ids) == len(g.Nodes) && isnew(ids) && isnew(out) && out != nil && (forall k int {ids[k]} :: 0 <= k && k <= rangeindex0 ==> ids[k] != nil && ids[k].Index == g.Nodes[k].Index && ids[k].Public != nil && ids[k].Public.Signature == g.Nodes[k].Signature)
//@   ensures [C20:group-packet-carries-the-scalar-terms] out != nil && (0 <= g.Threshold && g.Threshold < 4294967296 ==> out.Threshold == g.Threshold) && (g.GenesisTime >= 0 ==> out.GenesisTime == g.GenesisTime) && (g.TransitionTime >= 0 ==> out.TransitionTime == g.TransitionTime) && out.SchemeID == g.Scheme.Name && out.Metadata != nil
//@   ensures [C20:group-packet-carries-the-genesis-seed-of-the-group] out.GenesisSeed == g.GenesisSeed
//@   ensures [C20:group-packet-lists-every-node-with-its-index-and-signature] len(out.Nodes) == len(g.Nodes) && (forall k int {out.Nodes[k]} :: 0 <= k && k < len(g.Nodes) ==> out.Nodes[k] != nil && out.Nodes[k].Index == g.Nodes[k].Index && out.Nodes[k].Public != nil && out.Nodes[k].Public.Signature == g.Nodes[k].Signature)

// ---- C20: encode side of the TOML mirrors (what Save writes and the DKG database embeds) ---------------------------------
//@ func PointToString(p) (s)
//@   props C20
//@   modifies nothing
//@   ensures [C20:point-text-is-hex-of-its-binary-form] s == hexOf(marshalOf(p))
//@ func ScalarToString(s) (r)
//@   props C20
//@   modifies nothing
//@   ensures [C20:scalar-text-is-hex-of-its-binary-form] r == hexOf(marshalOf(s))

//@ func (*Identity).TOML(i) (r)
//@   props C20
//@   modifies nothing
//@   ensures [C20:identity-mirror-carries-address-key-signature-scheme] typeis(r, "*PublicTOML") && as(r, "*PublicTOML") != nil && as(r, "*PublicTOML").Address == i.Addr && as(r, "*PublicTOML").Key == hexOf(marshalOf(i.Key)) && as(r, "*PublicTOML").Signature == hexOf(i.Signature) && (i.Scheme != nil ==> as(r, "*PublicTOML").SchemeName == i.Scheme.Name)

//@ func (*Node).TOML(n) (r)
//@   props C20
//@   requires n.Identity != nil
//@   modifies nothing
//@   ensures [C20:node-mirror-carries-index-and-identity] typeis(r, "*NodeTOML") && as(r, "*NodeTOML") != nil && as(r, "*NodeTOML").Index == n.Index && as(r, "*NodeTOML").PublicTOML != nil && as(r, "*NodeTOML").PublicTOML.Address == n.Identity.Addr && as(r, "*NodeTOML").PublicTOML.Key == hexOf(marshalOf(n.Identity.Key))

//@ func (*DistPublic).TOML(d) (r)
//@   props C20
//@   modifies nothing
//@   loop 0: invariant [C20:dist-public-mirror-scan] -1 <= rangeindex0 && rangeindex0 < len(d.Coefficients) && len(strings) == len(d.Coefficients) && isnew(strings) && (forall k int {strings[k]} :: 0 <= k && k <= rangeindex0 ==> strings[k] == hexOf(marshalOf(d.Coefficients[k])))
//@   ensures [C20:dist-public-mirror-carries-every-coefficient] typeis(r, "*DistPublicTOML") && as(r, "*DistPublicTOML") != nil && len(as(r, "*DistPublicTOML").Coefficients) == len(d.Coefficients) && (forall k int {as(r, "*DistPublicTOML").Coefficients[k]} :: 0 <= k && k < len(d.Coefficients) ==> as(r, "*DistPublicTOML").Coefficients[k] == hexOf(marshalOf(d.Coefficients[k])))

//@ func (*Group).TOML(g) (r)
//@   props C20
//@   requires g.Scheme != nil && (forall k int :: 0 <= k && k < len(g.Nodes) ==> g.Nodes[k] != nil && g.Nodes[k].Identity != nil)
//@   modifies g.GenesisSeed
//@   loop 0: invariant [C20:group-mirror-node-scan] -1 <= rangeindex0 && rangeindex0 < len(g.Nodes) && gtoml != nil && isnew(gtoml) && len(gtoml.Nodes) == len(g.Nodes) && isnew(gtoml.Nodes) && gtoml.Threshold == g.Threshold && (forall k int {gtoml.Nodes[k]} :: 0 <= k && k <= rangeindex0 ==> gtoml.Nodes[k] != nil && gtoml.Nodes[k].Index == g.Nodes[k].Index)
//@   ensures [C20:group-mirror-carries-the-scalar-terms] typeis(r, "*GroupTOML") && as(r, "*GroupTOML") != nil && as(r, "*GroupTOML").Threshold == g.Threshold && as(r, "*GroupTOML").ID == g.ID && as(r, "*GroupTOML").SchemeID == g.Scheme.Name && as(r, "*GroupTOML").GenesisTime == g.GenesisTime && as(r, "*GroupTOML").TransitionTime == g.TransitionTime && as(r, "*GroupTOML").GenesisSeed == hexOf(g.GenesisSeed)
//@   ensures [C20:group-mirror-lists-every-node-with-its-index] len(as(r, "*GroupTOML").Nodes) == len(g.Nodes) && (forall k int {as(r, "*GroupTOML").Nodes[k]} :: 0 <= k && k < len(g.Nodes) ==> as(r, "*GroupTOML").Nodes[k] != nil && as(r, "*GroupTOML").Nodes[k].Index == g.Nodes[k].Index)
//@   ensures [C20:group-mirror-keeps-the-public-key-presence] (as(r, "*GroupTOML").PublicKey != nil) == (g.PublicKey != nil)

//@ func (*Share).TOML(s) (r)
//@   props C20
//@   requires s.Share != nil && s.Scheme != nil
//@   modifies nothing
//@   ensures [C20:share-mirror-carries-index-scheme-and-secret] typeis(r, "*ShareTOML") && as(r, "*ShareTOML") != nil && as(r, "*ShareTOML").Index == s.Share.I && as(r, "*ShareTOML").SchemeName == s.Scheme.Name && as(r, "*ShareTOML").Share == hexOf(marshalOf(s.Share.V)) && len(as(r, "*ShareTOML").Commits) == len(s.Commits)

//@ func (*Share).FromTOML(s, i) (err)
//@   props C20
//@   modifies s.Scheme, s.Commits, s.Share
//@   ensures [C20:decoded-share-carries-index-and-commit-count] err == nil && typeis(i, "*ShareTOML") ==> s.Share != nil && s.Share.I == as(i, "*ShareTOML").Index && len(s.Commits) == len(as(i, "*ShareTOML").Commits) && s.Scheme != nil && (as(i, "*ShareTOML").SchemeName != "" ==> s.Scheme.Name == as(i, "*ShareTOML").SchemeName)
//@   ensures [C20:a-share-of-another-type-is-rejected] !typeis(i, "*ShareTOML") ==> err != nil

// ---- C15: a key or share file that cannot be loaded is reported without reproducing its lines ---------------------------
// The errors Load returns are logged by the daemon and returned by control endpoints. showsFileText(s): the string s
// reproduces lines of the file being parsed (a private key file has the key, a share file the share, next to the lines a
// syntax error can point at).
//@ ghost showsFileText(string) bool
//@ extern (github.com/BurntSushi/toml.ParseError).ErrorWithPosition(e) (r)
//@   trusted BurntSushi/toml: this message includes the offending line of the input and the two lines before it
//@   modifies nothing
//@   ensures showsFileText(r)
//@ extern github.com/BurntSushi/toml.DecodeFile(path, v) (md, err)
//@   trusted BurntSushi/toml: decodes the file into v; the error it returns carries a position and a key name, no line content (Error(), unlike ErrorWithPosition())
//@   modifies everything
//@   ensures forall x string {quotes(err, x)} :: !quotes(err, x)
//@ iface (Tomler).FromTOML(t, v) (err)
//@   trusted the decoders of the key-store types see decoded values, never the text of the file (their own errors are checked not to quote encoded secrets: StringToPoint / StringToScalar)
//@   modifies everything
//@   ensures forall x string {quotes(err, x)} :: showsFileText(x) ==> !quotes(err, x)
//@ func Load(filePath, t) (err)
//@   props C15
//@   requires [wf] t != nil
//@   ensures [C15:a-load-failure-does-not-reproduce-lines-of-the-key-file] forall x string {quotes(err, x)} :: showsFileText(x) ==> !quotes(err, x)
