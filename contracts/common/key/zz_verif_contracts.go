//go:build verif

// Contracts for package key. Comment-only file: adds no code.

package key

//@ extern (*Group).GetGenesisSeed(g) (r)
//@   trusted lazily caches Hash() in g.GenesisSeed; touches nothing else
//@   modifies g.GenesisSeed
//@   ensures r == g.GenesisSeed

//@ func (*Group).Node(g, i) (n)
//@   props C03 C07
//@   modifies nothing
//@   loop 0: invariant [C03:node-scan-invariant] -1 <= rangeindex && rangeindex < len(g.Nodes) && (forall k int :: 0 <= k && k <= rangeindex ==> g.Nodes[k].Index != i)
//@   ensures [C03:node-lookup-returns-member-with-that-index] n != nil ==> n.Index == i && (exists k int :: 0 <= k && k < len(g.Nodes) && g.Nodes[k] == n)
//@   ensures [C03:absent-index-yields-nil] n == nil ==> (forall k int :: 0 <= k && k < len(g.Nodes) ==> g.Nodes[k].Index != i)

//@ func (*Group).Len(g) (n)
//@   props C03
//@   modifies nothing

// ---- C15 / C20 / C13: saving key material ---------------------------------------------------------------

//@ iface (Tomler).TOML(t) (v)
//@   trusted the TOML mirror structs are checked field by field under C20
//@   modifies nothing

//@ func Save(filePath, t, secure) (err)
//@   props C15 C20 C13
//@   modifies fexists(filePath), fmode(filePath), fcontent(filePath)
//@   ensures [C15:secure-save-leaves-an-owner-only-file] secure && err == nil ==> fexists(filePath) && fmode(filePath) == 384
//@   ensures [C20:saved-file-holds-exactly-the-encoding-of-the-value] err == nil ==> (exists v iface :: fcontent(filePath) == tomlOf(v))
//@   call Encode#0: assert [C20,C13:file-is-empty-when-encoding-starts] fcontent(filePath) == nil

//@ func (*fileStore).SaveKeyPair(f, p) (err)
//@   props C15
//@   call Save#0: assert [C15:private-key-is-saved-securely] arg0 == f.privateKeyFile && arg2

//@ func (*fileStore).SaveShare(f, share) (err)
//@   props C15
//@   call Save#0: assert [C15:private-share-is-saved-securely] arg0 == f.shareFile && arg2
