//go:build verif

// Contracts for package key. Comment-only file: adds no code.

package key

//@ extern (*Group).GetGenesisSeed(g) (r)
//@   trusted lazily caches Hash() in g.GenesisSeed; touches nothing else
//@   modifies g.GenesisSeed
//@   ensures r == g.GenesisSeed

//@ func (*Group).Node(g, i) (n)
//@   props C03 C07
//@   modifies nothing
//@   loop 0: invariant [C03:node-scan-invariant] -1 <= rangeindex && rangeindex < len(g.Nodes) && (forall k int :: 0 <= k && k <= rangeindex ==> g.Nodes[k].Index != i)
//@   ensures [C03:node-lookup-returns-member-with-that-index] n != nil ==> n.Index == i && (exists k int :: 0 <= k && k < len(g.Nodes) && g.Nodes[k] == n)
//@   ensures [C03:absent-index-yields-nil] n == nil ==> (forall k int :: 0 <= k && k < len(g.Nodes) ==> g.Nodes[k].Index != i)

//@ func (*Group).Len(g) (n)
//@   props C03
//@   modifies nothing
