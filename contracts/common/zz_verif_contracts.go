//go:build verif

// Contracts for package common (C16). Comment-only file: adds no code.
// Read by /verif/govc; see /verif/DESIGN.md §4.

package common

// ---- C16: round/time arithmetic -------------------------------------------
//
// Spec (mathematical integers): P = period/1e9 seconds, T(r) = g + (r-1)*P for r >= 1,
// k(now) = (now-g) div P, ERR = MaxInt64 - 2^36.

//@ pred validPeriod(period) := period % 1000000000 == 0 && 1000000000 <= period && period <= 4294967295000000000
//@ pred validGenesis(g) := 0 <= g && g <= 4294967296
//@ pred secs(period) := period / 1000000000
//@ pred timeOf(period, g, r) := g + (r - 1) * secs(period)
//@ pred errVal() := 9223371968135299071
//@ pred ilog2(x) := ite(x < 2, 0, ite(x < 4, 1, ite(x < 8, 2, ite(x < 16, 3, ite(x < 32, 4, ite(x < 64, 5, ite(x < 128, 6, ite(x < 256, 7, \
//@ \ ite(x < 512, 8, ite(x < 1024, 9, ite(x < 2048, 10, ite(x < 4096, 11, ite(x < 8192, 12, ite(x < 16384, 13, ite(x < 32768, 14, ite(x < 65536, 15, \
//@ \ ite(x < 131072, 16, ite(x < 262144, 17, ite(x < 524288, 18, ite(x < 1048576, 19, ite(x < 2097152, 20, ite(x < 4194304, 21, ite(x < 8388608, 22, \
//@ \ ite(x < 16777216, 23, ite(x < 33554432, 24, ite(x < 67108864, 25, ite(x < 134217728, 26, ite(x < 268435456, 27, ite(x < 536870912, 28, \
//@ \ ite(x < 1073741824, 29, ite(x < 2147483648, 30, ite(x < 4294967296, 31, ite(x < 8589934592, 32, 33)))))))))))))))))))))))))))))))))

//@ extern math.Log2(x) (r)
//@   trusted IEEE log2 on [1, 2^33]: floor(log2 x) <= result < floor(log2 x)+1 (exact on powers of two); bounded-checked against the real math.Log2 by /verif/bounded/log2_test.go
//@   ensures 1.0 <= x && x <= 8589934592.0 ==> real(ilog2(x)) <= r && r < real(ilog2(x)) + 1.0

//@ func TimeOfRound(period, genesis, round) (res)
//@   props C16
//@   requires validPeriod(period) && validGenesis(genesis)
//@   modifies nothing
//@   call Log2#0: after [C16:cut-log2-is-ilog2] floor(result) == ilog2(secs(period) + 1) && 1 <= ilog2(secs(period) + 1) && ilog2(secs(period) + 1) <= 32
//@   call Log2#0: after [C16:cut-guard-complete] split k 1 32 :: ilog2(secs(period) + 1) == k ==> ((round - 1) * secs(period) <= 1125899906842624 ==> round < (18446744073709551615 >> (k + 2)))
//@   call Seconds#1: assert [C16:cut-product-no-wrap] split k 1 32 :: ilog2(secs(period) + 1) == k ==> (round - 1) * secs(period) < 9223372036854775808
//@   ensures [C16:round0-is-genesis] round == 0 ==> res == genesis
//@   ensures [C16:error-or-exact-never-wrapped] round == 0 || res == errVal() || (res == timeOf(period, genesis, round) && 0 <= res && res <= errVal())
//@   ensures [C16:complete-in-range] round >= 1 && timeOf(period, genesis, round) <= genesis + 1125899906842624 ==> res == timeOf(period, genesis, round)
//@   ensures [C16:no-overflow-at-time.Unix] res + 62135596800 <= 9223372036854775807

//@ func NextRound(now, period, genesis) (nextRound, nextTime)
//@   props C16
//@   requires validPeriod(period) && validGenesis(genesis)
//@   requires now <= genesis + 1125899906842624 && now >= 0 - 4611686018427387904
//@   modifies nothing
//@   ensures [C16:before-genesis] now < genesis ==> nextRound == 1 && nextTime == genesis
//@   ensures [C16:next-round-number] now >= genesis ==> nextRound == (now - genesis) / secs(period) + 2
//@   ensures [C16:next-round-time-exact] now >= genesis ==> nextTime == timeOf(period, genesis, nextRound)
//@   ensures [C16:next-time-after-now] now >= genesis ==> nextTime > now && nextTime - secs(period) <= now

//@ func CurrentRound(now, period, genesis) (res)
//@   props C16
//@   requires validPeriod(period) && validGenesis(genesis)
//@   requires now <= genesis + 1125899906842624 && now >= 0 - 4611686018427387904
//@   modifies nothing
//@   ensures [C16:current-round-number] now >= genesis ==> res == (now - genesis) / secs(period) + 1
//@   ensures [C16:current-round-brackets-now] now >= genesis ==> timeOf(period, genesis, res) <= now && now < timeOf(period, genesis, res + 1)
//@   ensures [C16:current-before-genesis] now < genesis ==> res == 1

//@ lemma [C16] round-unique: forall p int, g int, t int, r1 int, r2 int :: p >= 1 && r1 >= 1 && r2 >= 1 && g + (r1-1)*p <= t && t < g + r1*p && g + (r2-1)*p <= t && t < g + r2*p ==> r1 == r2
//@ lemma [C16] time-strictly-increasing: forall p int, g int, r1 int, r2 int :: p >= 1 && 1 <= r1 && r1 < r2 ==> g + (r1-1)*p < g + (r2-1)*p

// ---- beacon id helpers (used by C19 routing contracts) ------------------------

//@ func IsDefaultBeaconID(beaconID) (r)
//@   props C19
//@   modifies nothing
//@   ensures [C19:default-id-is-empty-or-default] r <==> (beaconID == "default" || beaconID == "")

//@ func CompareBeaconIDs(id1, id2) (r)
//@   props C19
//@   modifies nothing
//@   ensures [C19:ids-equal-modulo-default] r <==> (((id1 == "default" || id1 == "") && (id2 == "default" || id2 == "")) || id1 == id2)

//@ func GetCanonicalBeaconID(id) (r)
//@   props C19
//@   modifies nothing
//@   ensures [C19:canonical-id] r == ite(id == "default" || id == "", "default", id)

// Beacon.String() only formats its receiver for log lines (effect-free; its text is not used by any contract)
//@ pure (*github.com/drand/drand/v2/common.Beacon).String

//@ func (*Beacon).Randomness(b) (r)
//@   props C01
//@   modifies nothing
//@   ensures [C01:beacon-randomness-is-the-sha256-of-its-signature] r == digest(256, b.Signature)
//@ func (*Beacon).GetRandomness(b) (r)
//@   props C01
//@   modifies nothing
//@   ensures [C01:beacon-randomness-is-the-sha256-of-its-signature] r == digest(256, b.Signature)

// ---- C14: the version comparison used by the interceptor in front of the recovery interceptor cannot panic -------------
//@ func (Version).IsCompatible(v, verRcv) (ok)
//@   props C14
//@   flags nopanic=C14
//@   modifies nothing
