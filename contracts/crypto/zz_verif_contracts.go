//go:build verif

// Contracts for package crypto. Comment-only file: adds no code.
// Read by /verif/govc; see /verif/DESIGN.md §4.

package crypto

// ---- ghost vocabulary shared by C01 / C03 / C10 -------------------------------
//
// digestOf(scheme, round, prev)  : the message a beacon of (round, previous signature) is signed over in `scheme`
// validSig(pk, msg, sig)         : sig is a valid (recovered) threshold signature on msg under public key pk
// validPartial(poly, msg, sig)   : sig is a valid partial signature on msg w.r.t. public polynomial poly
// idxOf(sig)                     : signer index encoded in a partial signature
// Cryptographic soundness of the kyber implementations behind these predicates is assumed (trusted base).

//@ ghost digestOf(ref, int, bytes) bytes
//@ ghost validSig(ref, bytes, bytes) bool
//@ ghost validPartial(ref, bytes, bytes) bool
//@ ghost idxOf(bytes) int
//@ ghost commitOf(ref) ref

//@ field Scheme.DigestBeacon(self, b) (m)
//@   trusted the five digest closures in crypto/schemes.go (sha256 over previous signature (chained only) and big-endian round); sensitivity lemmas are C01/C17 work items; here: the digest is a function of scheme, round and previous signature of the value passed
//@   modifies nothing
//@   ensures typeis(b, "*github.com/drand/drand/v2/common.Beacon") ==> m == digestOf(self, as(b, "*github.com/drand/drand/v2/common.Beacon").Round, as(b, "*github.com/drand/drand/v2/common.Beacon").PreviousSig)
//@   ensures typeis(b, "*github.com/drand/drand/v2/internal/chain/beacon.roundCache") ==> m == digestOf(self, as(b, "*github.com/drand/drand/v2/internal/chain/beacon.roundCache").round, as(b, "*github.com/drand/drand/v2/internal/chain/beacon.roundCache").prev)
//@   ensures typeis(b, "*github.com/drand/drand/v2/protobuf/drand.PartialBeaconPacket") ==> m == digestOf(self, as(b, "*github.com/drand/drand/v2/protobuf/drand.PartialBeaconPacket").Round, as(b, "*github.com/drand/drand/v2/protobuf/drand.PartialBeaconPacket").PreviousSignature)

//@ iface (SignedBeacon).GetSignature(b) (r)
//@   trusted accessor of the concrete beacon types
//@   modifies nothing
//@   ensures typeis(b, "*github.com/drand/drand/v2/common.Beacon") ==> r == as(b, "*github.com/drand/drand/v2/common.Beacon").Signature

//@ iface (github.com/drand/kyber/sign.ThresholdScheme).VerifyRecovered(ts, public, msg, sig) (err)
//@   trusted kyber tbls: soundness of BLS verification (assumed)
//@   modifies nothing
//@   ensures err == nil ==> validSig(public, msg, sig)
//@   ensures [C10] err != nil ==> !validSig(public, msg, sig)

//@ iface (github.com/drand/kyber/sign.ThresholdScheme).VerifyPartial(ts, public, msg, sig) (err)
//@   trusted kyber tbls: soundness of partial verification against the public polynomial (assumed)
//@   modifies nothing
//@   ensures err == nil ==> validPartial(public, msg, sig)

//@ iface (github.com/drand/kyber/sign.ThresholdScheme).IndexOf(ts, sig) (i, err)
//@   trusted kyber tbls: index prefix of a partial signature
//@   modifies nothing
//@   ensures err == nil ==> i == idxOf(sig) && 0 <= i && i < 65536 && len(sig) >= 2

//@ iface (github.com/drand/kyber/sign.ThresholdScheme).Recover(ts, public, msg, sigs, t, n) (sig, err)
//@   trusted kyber tbls: Recover re-verifies each share and needs t valid ones (assumed)
//@   modifies nothing

//@ extern (*github.com/drand/kyber/share.PubPoly).Commit(p) (pt)
//@   trusted kyber: constant term of the public polynomial = distributed public key
//@   modifies nothing
//@   ensures ref(pt) == commitOf(p)

//@ func (*Scheme).VerifyBeacon(s, b, pubkey) (err)
//@   props C01 C10
//@   modifies nothing
//@   ensures [C01:verify-beacon-binds-round-previous-and-signature] err == nil && typeis(b, "*github.com/drand/drand/v2/common.Beacon") ==> validSig(pubkey, digestOf(s, as(b, "*github.com/drand/drand/v2/common.Beacon").Round, as(b, "*github.com/drand/drand/v2/common.Beacon").PreviousSig), as(b, "*github.com/drand/drand/v2/common.Beacon").Signature)
//@   ensures [C10:verify-beacon-rejects-exactly-the-invalid-signatures] err != nil && typeis(b, "*github.com/drand/drand/v2/common.Beacon") ==> !validSig(pubkey, digestOf(s, as(b, "*github.com/drand/drand/v2/common.Beacon").Round, as(b, "*github.com/drand/drand/v2/common.Beacon").PreviousSig), as(b, "*github.com/drand/drand/v2/common.Beacon").Signature)

// ---- C20: scheme table ------------------------------------------------------------------------------------
// The kyber library (pairing suites, threshold/auth schemes) is assumed not to touch any state of the functions
// under contract; its results are unconstrained.
//@ pure github.com/drand/kyber
//@ pure (github.com/drand/kyber
//@ pure (*github.com/drand/kyber

//@ pred knownScheme(id) := id == "pedersen-bls-chained" || id == "pedersen-bls-unchained" || id == "bls-unchained-on-g1" || id == "bls-unchained-g1-rfc9380" || id == "bls-bn254-unchained-on-g1"

//@ func NewPedersenBLSChained() (cs)
//@   props C20
//@   modifies nothing
//@   ensures [C20:constructor-names-its-scheme] cs != nil && cs.Name == "pedersen-bls-chained"

//@ func NewPedersenBLSUnchained() (cs)
//@   props C20
//@   modifies nothing
//@   ensures [C20:constructor-names-its-scheme] cs != nil && cs.Name == "pedersen-bls-unchained"

//@ func NewPedersenBLSUnchainedSwapped() (cs)
//@   props C20
//@   modifies nothing
//@   ensures [C20:constructor-names-its-scheme] cs != nil && cs.Name == "bls-unchained-on-g1"

//@ func NewPedersenBLSUnchainedG1() (cs)
//@   props C20
//@   modifies nothing
//@   ensures [C20:constructor-names-its-scheme] cs != nil && cs.Name == "bls-unchained-g1-rfc9380"

//@ func NewPedersenBLSBN254UnchainedOnG1Scheme() (cs)
//@   props C20
//@   modifies nothing
//@   ensures [C20:constructor-names-its-scheme] cs != nil && cs.Name == "bls-bn254-unchained-on-g1"

//@ func SchemeFromName(schemeName) (s, err)
//@   props C20
//@   modifies nothing
//@   ensures [C20:unknown-scheme-name-is-rejected] !knownScheme(schemeName) ==> err != nil
//@   ensures [C20:known-scheme-name-yields-that-scheme] err == nil ==> s != nil && s.Name == schemeName

//@ func GetSchemeByID(id) (s, err)
//@   props C20
//@   modifies nothing
//@   ensures [C20:unknown-scheme-id-is-rejected] id != "" && !knownScheme(id) ==> err != nil
//@   ensures [C20:scheme-id-yields-that-scheme-empty-means-default] err == nil ==> s != nil && knownScheme(s.Name) && (id != "" ==> s.Name == id) && (id == "" ==> s.Name == "pedersen-bls-chained")

// ---- C01: published randomness is the SHA-256 of the signature ------------------------------------------------------------
//@ extern crypto/sha256.Sum256(data) (a)
//@   trusted SHA-256 of the content (stdlib)
//@   modifies nothing
//@   ensures a == digest(256, data) && len(a) == 32

//@ func RandomnessFromSignature(sig) (r)
//@   props C01
//@   modifies nothing
//@   ensures [C01:randomness-is-the-sha256-of-the-signature] r == digest(256, sig)
