//go:build verif

// Contracts for package vault. Comment-only file: adds no code.

package vault

// polyOf(distPublic, scheme): the public polynomial of a distributed key (kyber, assumed functional)
//@ ghost polyOf(ref, ref) ref

//@ extern (*github.com/drand/drand/v2/common/key.DistPublic).PubPoly(d, sch) (p)
//@   trusted wraps the commitments of the distributed key into kyber's PubPoly; functional in (d, sch)
//@   modifies nothing
//@   ensures p == polyOf(d, sch)

// ---- C03 / C07: threshold, membership and polynomial are read from the live group, swapped together ----

//@ func (*Vault).GetGroup(v) (g)
//@   props C03 C07
//@   flags lockcheck
//@   modifies nothing
//@   ensures [C07:group-read-from-vault] g == v.group

//@ func (*Vault).GetPub(v) (p)
//@   props C03 C07
//@   flags lockcheck
//@   modifies nothing
//@   ensures [C07:polynomial-read-from-vault] p == v.pub

//@ func (*Vault).Index(v) (i)
//@   props C03 C07
//@   flags lockcheck
//@   requires v.share != nil && v.share.Share != nil
//@   modifies nothing
//@   ensures [C07:index-read-from-vault-share] i == v.share.Share.I

//@ func NewVault(l, currentGroup, ks, sch) (v)
//@   props C03 C07
//@   requires currentGroup != nil
//@   modifies currentGroup.GenesisSeed
//@   ensures [C03,C07:vault-starts-with-group-polynomial] v != nil && v.group == currentGroup && v.share == ks && v.Scheme == sch && v.pub == polyOf(currentGroup.PublicKey, sch)

//@ func (*Vault).SetInfo(v, newGroup, ks)
//@   props C03 C07
//@   flags lockcheck
//@   requires newGroup != nil
//@   modifies v.share, v.group, v.pub
//@   ensures [C03,C07:share-group-polynomial-swapped-together] v.share == ks && v.group == newGroup && v.pub == polyOf(newGroup.PublicKey, v.Scheme)
//@   call Unlock#0: assert [C07:swap-is-atomic-under-the-write-lock] v.share == ks && v.group == newGroup && v.pub == polyOf(newGroup.PublicKey, v.Scheme) && held(v.mu)
