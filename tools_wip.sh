#!/bin/sh
# usage: tools_wip.sh <contract file relative to contracts/> <wip file> <prop> [govc flags]: runs a check against a scratch worktree
# whose contract file has the work-in-progress clauses appended (the mirror and /repo are not touched).
WT=/tmp/verif_wipwt.$$
git -C /repo worktree add -q --detach $WT HEAD || exit 9
(cd /verif/contracts && find . -name zz_verif_contracts.go | while read f; do mkdir -p "$WT/$(dirname "$f")"; cp "$f" "$WT/$f"; done)
cat "$2" >> "$WT/$1"
P=$3; shift 3
GOVC_OUT=/tmp/verif_wipout GOVC_REPO=$WT timeout ${WIPTIMEOUT:-600} /verif/bin/govc check "$P" -repo $WT -no-evidence "$@" 2>&1 | grep -v "^note:" | cut -c1-${CUT:-260} | tail -${TAILN:-30}
git -C /repo worktree remove --force $WT; rm -rf $WT
