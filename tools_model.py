#!/usr/bin/env python3
import json,sys,re
r=json.load(open(sys.argv[1]))
print(r['obligation'],'|',r['clause'][:150]); print('path:',r['path'],'status:',r['status'])
out=r['solver_output']
for m in re.finditer(r'\(define-fun (\S+) \(\) (\S+)\s+([^\n]+)\)\n', out):
    n=m.group(1)
    if n.startswith(('H0','H1','h!','hv!')) : continue
    print('  ',n,m.group(2),m.group(3)[:100])
