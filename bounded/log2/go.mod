module log2check

go 1.23
