// Bounded check (NOT a proof) of the assumed contract on math.Log2 used by C16:
// for integral x in [1, 2^33]: floor(log2 x) <= math.Log2(x) < floor(log2 x)+1.
// Bound: every 2^k-1, 2^k, 2^k+1 for k <= 33 plus 2,000,000 pseudo-random integers <= 2^33 (fixed seed).
package main

import (
	"fmt"
	"math"
	"math/bits"
	"math/rand"
	"os"
)

func check(x uint64) bool {
	if x < 1 {
		return true
	}
	k := float64(bits.Len64(x) - 1)
	r := math.Log2(float64(x))
	return k <= r && r < k+1
}

func main() {
	n := 0
	for k := 0; k <= 33; k++ {
		for _, d := range []int64{-1, 0, 1} {
			x := int64(1)<<uint(k) + d
			if x >= 1 && x <= 1<<33 {
				n++
				if !check(uint64(x)) {
					fmt.Printf("FAIL x=%d log2=%v\n", x, math.Log2(float64(x)))
					os.Exit(1)
				}
			}
		}
	}
	rng := rand.New(rand.NewSource(20260923))
	for i := 0; i < 2000000; i++ {
		x := uint64(rng.Int63n(1<<33)) + 1
		n++
		if !check(x) {
			fmt.Printf("FAIL x=%d log2=%v\n", x, math.Log2(float64(x)))
			os.Exit(1)
		}
	}
	fmt.Printf("ok inputs=%d\n", n)
}
