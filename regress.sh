#!/bin/sh
# Runs the quick check of every claimed property on the current tree; prints one summary line per property.
cd /verif
for p in $(python3 -c "import json;print(' '.join(k for k,v in json.load(open('/verif/claims.json')).items() if v.get('claimed')))"); do
  ./check.sh $p quick 2>&1 | grep "VIOLATION\|UNDEC\|^property=" | cut -c1-260
done
