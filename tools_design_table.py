#!/usr/bin/env python3
# Rebuilds the summary table of DESIGN.md section 1 from design_rows.json (texts) and evidence/*.json (measured counts).
import json, re, os
rows = json.load(open('/verif/design_rows.json'))
out = ["| id | obligations (quick) | what the contracts decide | what they do not |", "|----|----|----|----|"]
for i in range(1, 21):
    pid = "C%02d" % i
    dec, no = rows[pid]
    n = "—"
    p = "/verif/evidence/%s.json" % pid
    if os.path.exists(p):
        e = json.load(open(p))['coverage']
        cnt = e.get('obligations_generated')
        kn = len(e.get('known_findings') or [])
        n = str(cnt) + (" (%d known)" % kn if kn else "")
    out.append("| %s | %s | %s | %s |" % (pid, n, dec, no))
d = open('/verif/DESIGN.md').read()
d2 = re.sub(r"\| id \| obligations \(quick\) \|.*?\n\n", "\n".join(out) + "\n\n", d, count=1, flags=re.S)
open('/verif/DESIGN.md', 'w').write(d2)
print("\n".join(out[:5]))
