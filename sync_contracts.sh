#!/bin/sh
# Copies the contract mirror (/verif/contracts/**/zz_verif_contracts.go) into /repo and commits it there as a hook commit.
set -e
cd "$(dirname "$0")/contracts"
find . -name zz_verif_contracts.go | while read f; do
  mkdir -p "/repo/$(dirname "$f")"
  cp "$f" "/repo/$f"
  git -C /repo add "$f"
done
if ! git -C /repo diff --cached --quiet; then
  git -C /repo commit -q -m "verif hook: contract comments (build tag verif, comment-only) ${1:-}"
  git -C /repo log --oneline | head -1
fi
