#!/bin/sh
# dev helper: copy the contract mirror into /repo without committing
cd /verif/contracts && find . -name zz_verif_contracts.go | while read f; do mkdir -p "/repo/$(dirname "$f")"; cp "$f" "/repo/$f"; done
