package main

import (
	"fmt"
	"os"
	"time"

	"golang.org/x/tools/go/packages"
	"golang.org/x/tools/go/ssa"
	"golang.org/x/tools/go/ssa/ssautil"
)

func main() {
	t0 := time.Now()
	cfg := &packages.Config{Mode: packages.NeedName | packages.NeedFiles | packages.NeedCompiledGoFiles | packages.NeedImports | packages.NeedTypes | packages.NeedTypesSizes | packages.NeedSyntax | packages.NeedTypesInfo | packages.NeedDeps, Dir: "/repo", BuildFlags: []string{"-tags=verif"}}
	pkgs, err := packages.Load(cfg, os.Args[1:]...)
	if err != nil {
		panic(err)
	}
	fmt.Println("load", time.Since(t0), len(pkgs))
	prog, spkgs := ssautil.Packages(pkgs, ssa.InstantiateGenerics)
	for _, p := range spkgs {
		if p != nil {
			p.Build()
		}
	}
	_ = prog
	fmt.Println("ssa", time.Since(t0))
	for _, p := range spkgs {
		if p != nil && p.Pkg.Name() == "common" {
			p.Func("TimeOfRound").WriteTo(os.Stdout)
		}
	}
}
