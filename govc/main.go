package main

import (
	"bufio"
	"encoding/json"
	"flag"
	"fmt"
	"os"
	"os/exec"
	"path/filepath"
	"sort"
	"strconv"
	"strings"
	"sync"
	"time"
)

type knownFinding struct {
	Prop, Oblig, Note string
	Fixed             bool
}

func loadKnown(path string) []knownFinding {
	var out []knownFinding
	f, err := os.Open(path)
	if err != nil {
		return nil
	}
	defer f.Close()
	sc := bufio.NewScanner(f)
	for sc.Scan() {
		l := strings.TrimSpace(sc.Text())
		if l == "" || strings.HasPrefix(l, "#") {
			continue
		}
		kf := knownFinding{}
		if strings.HasPrefix(l, "fixed:") {
			kf.Fixed = true
		} else if !strings.HasPrefix(l, "finding:") {
			continue
		}
		for _, w := range strings.Fields(l) {
			if strings.HasPrefix(w, "property=") {
				kf.Prop = strings.TrimPrefix(w, "property=")
			}
			if strings.HasPrefix(w, "obligation=") {
				kf.Oblig = strings.TrimPrefix(w, "obligation=")
			}
		}
		if i := strings.Index(l, "note="); i >= 0 {
			kf.Note = l[i+5:]
		}
		out = append(out, kf)
	}
	return out
}

type obAgg struct {
	Name      string
	Kind      string
	Prop      string
	Src       string
	Where     string
	Instances int
	Failed    []*Oblig
	All       []*Oblig
	Vacuous   bool
	Solvers   map[string]int
	Ms        int64
	Expect    bool
}

func main() {
	if len(os.Args) < 2 {
		fmt.Fprintln(os.Stderr, "usage: govc check <Cxx> [-tier quick|thorough] | govc dump <func>")
		os.Exit(2)
	}
	cmd := os.Args[1]
	fs := flag.NewFlagSet(cmd, flag.ExitOnError)
	repo := fs.String("repo", "/repo", "repository")
	verif := fs.String("verif", "/verif", "verif dir")
	tier := fs.String("tier", envOr("VERIF_TIER", "quick"), "quick|thorough")
	only := fs.String("only", "", "only functions whose key contains this")
	verbose := fs.Bool("v", false, "verbose")
	noEvidence := fs.Bool("no-evidence", false, "do not write evidence")
	var args []string
	rest := os.Args[2:]
	for len(rest) > 0 && !strings.HasPrefix(rest[0], "-") {
		args = append(args, rest[0])
		rest = rest[1:]
	}
	fs.Parse(rest)
	args = append(args, fs.Args()...)
	os.Setenv("PATH", "/opt/veriftools/go1.26.8/bin:"+os.Getenv("PATH"))

	switch cmd {
	case "dump":
		eng, err := loadEngine(*repo, *verif, patternsFor(*repo, *verif))
		if err != nil {
			fmt.Fprintln(os.Stderr, err)
			os.Exit(2)
		}
		for k, fn := range eng.funcsByKey {
			for _, a := range args {
				if strings.Contains(k, a) {
					fn.WriteTo(os.Stdout)
				}
			}
		}
	case "check":
		if len(args) != 1 {
			fmt.Fprintln(os.Stderr, "check needs one property id")
			os.Exit(2)
		}
		os.Exit(runCheck(*repo, *verif, args[0], *tier, *only, *verbose, !*noEvidence))
	default:
		fmt.Fprintln(os.Stderr, "unknown command", cmd)
		os.Exit(2)
	}
}

// outBase: scratch directory for SMT scripts and replay files (GOVC_OUT lets the seed matrix run beside a normal check).
func outBase(verif string) string {
	if o := os.Getenv("GOVC_OUT"); o != "" {
		return o
	}
	return filepath.Join(verif, "out")
}

func envOr(k, d string) string {
	if v := os.Getenv(k); v != "" {
		return v
	}
	return d
}

// patternsFor: packages with contract files (+ protobuf packages for getter bodies).
func patternsFor(repo, verif string) []string {
	set := map[string]bool{"./protobuf/...": true, "./common": true}
	if extraPatterns != nil {
		for _, p := range extraPatterns {
			set[p] = true
		}
	}
	add := func(root string, rel func(string) string) {
		filepath.Walk(root, func(p string, info os.FileInfo, err error) error {
			if err != nil {
				return nil
			}
			if info.IsDir() && (info.Name() == ".git" || info.Name() == "node_modules") {
				return filepath.SkipDir
			}
			if !info.IsDir() && info.Name() == "zz_verif_contracts.go" {
				r := rel(filepath.Dir(p))
				if r == "" {
					r = "."
				}
				set["./"+r] = true
			}
			return nil
		})
	}
	add(repo, func(d string) string { r, _ := filepath.Rel(repo, d); return r })
	add(filepath.Join(verif, "contracts"), func(d string) string { r, _ := filepath.Rel(filepath.Join(verif, "contracts"), d); return r })
	var out []string
	for k := range set {
		if k == "./." {
			continue
		}
		if _, err := os.Stat(filepath.Join(repo, strings.TrimSuffix(strings.TrimPrefix(k, "./"), "/..."))); err != nil {
			continue
		}
		out = append(out, k)
	}
	sort.Strings(out)
	return out
}

// extraPatterns: packages loaded in addition to those with contract files (the C15 secret-flow sweep covers them)
var extraPatterns []string

func runCheck(repo, verif, prop, tier, only string, verbose, writeEvidence bool) int {
	t0 := time.Now()
	if prop == "C15" {
		extraPatterns = []string{"./internal/drand-cli", "./internal/net", "./common/log", "./internal/metrics", "./cmd/drand", "./internal/chain/postgresdb/...", "./internal/entropy", "./common/client", "./common/tracer"}
	}
	seed, _ := strconv.Atoi(os.Getenv("VERIF_SEED"))
	eng, err := loadEngine(repo, verif, patternsFor(repo, verif))
	if err != nil {
		// a tree that does not load/type-check cannot be verified
		fmt.Printf("UNDECIDED property=%s reason=load-failed: %v\n", prop, err)
		return 3
	}
	loadS := time.Since(t0).Seconds()
	eng.knownObligs = map[string]bool{}
	for _, k := range loadKnown(filepath.Join(verif, "known_findings.txt")) {
		if !k.Fixed && k.Prop == prop {
			eng.knownObligs[k.Oblig] = true
		}
	}
	eng.outDir = filepath.Join(outBase(verif), prop)
	os.RemoveAll(eng.outDir)
	os.MkdirAll(eng.outDir, 0o755)
	if tier == "thorough" {
		eng.timeoutS = 60
		eng.race = true
	}
	eng.addNoPanicArgContracts()
	fcs := eng.selectContracts(prop)
	// development aid (GOVC_LINT=1): a contract without a modifies clause makes every caller forget everything at the call; on a
	// function small enough to be inlined that silently weakens callers that used to see through it
	for _, fc := range eng.cs.Funcs {
		if os.Getenv("GOVC_LINT") == "" {
			break
		}
		if fc.Kind == "func" && !fc.HasMod {
			if fn, ok := eng.funcsByKey[fc.Key]; ok && eng.smallEnough(fn) {
				fmt.Fprintf(os.Stderr, "note: contract of %s has no modifies clause although the function is small enough to be inlined by its callers\n", shortFuncName(fc.Key))
			}
		}
	}
	var results []*FuncResult
	var mu sync.Mutex
	var wg sync.WaitGroup
	sem := make(chan struct{}, 8)
	for _, fc := range fcs {
		if only != "" && !strings.Contains(fc.Key, only) {
			continue
		}
		wg.Add(1)
		sem <- struct{}{}
		go func(fc *FuncContract) {
			defer wg.Done()
			defer func() { <-sem }()
			defer func() {
				if r := recover(); r != nil {
					mu.Lock()
					results = append(results, &FuncResult{Key: fc.Key, Short: shortFuncName(fc.Key), Errors: []string{fmt.Sprintf("engine panic: %v", r)}, Notes: map[string]int{}})
					mu.Unlock()
				}
			}()
			r := eng.verifyFunction(fc)
			mu.Lock()
			results = append(results, r)
			mu.Unlock()
		}(fc)
	}
	wg.Wait()
	if prop == "C14" && only == "" && len(eng.extraErrors) > 0 {
		results = append(results, &FuncResult{Key: "nopanicarg", Short: "nopanicarg", Errors: eng.extraErrors, Notes: map[string]int{}})
	}
	sort.Slice(results, func(i, j int) bool { return results[i].Key < results[j].Key })
	var all []*Oblig
	for _, r := range results {
		all = append(all, r.Obligs...)
	}
	if only == "" {
		all = append(all, eng.lemmaObligs(prop)...)
	}
	if prop == "C15" && (only == "" || only == "secretfmt") {
		all = append(all, eng.secretFmtObligs()...)
	}
	genS := time.Since(t0).Seconds() - loadS
	eng.dischargeAll(all)

	// aggregate by obligation name
	aggs := map[string]*obAgg{}
	var order []string
	var solverMs int64
	for _, o := range all {
		if o.Prop != "" && !propMatch(o.Prop, prop) {
			continue // clause tagged for another property only (it is still assumed along the path)
		}
		n := o.Name()
		a := aggs[n]
		if a == nil {
			a = &obAgg{Name: n, Kind: o.Kind, Prop: o.Prop, Src: o.Src, Where: o.Where, Solvers: map[string]int{}, Expect: o.ExpectFail}
			aggs[n] = a
			order = append(order, n)
		}
		a.Instances++
		a.All = append(a.All, o)
		a.Solvers[o.Res.Solver]++
		a.Ms += o.Res.Ms
		solverMs += o.Res.Ms
		if !o.ok() {
			a.Failed = append(a.Failed, o)
		}
	}
	sort.Strings(order)
	coverMs := eng.coverAll(aggs, order)
	solverMs += coverMs

	known := loadKnown(filepath.Join(verif, "known_findings.txt"))
	isKnown := func(name string) *knownFinding {
		for i := range known {
			if !known[i].Fixed && known[i].Prop == prop && known[i].Oblig == name {
				return &known[i]
			}
		}
		return nil
	}

	exit := 0
	violations := 0
	var knownHit []string
	undecided := []string{}
	eng.mu.Lock()
	for e := range eng.cerrs {
		undecided = append(undecided, "contract error: "+e)
	}
	eng.mu.Unlock()
	for _, r := range results {
		if r.Missing {
			undecided = append(undecided, "function under contract not found: "+r.Key)
		}
		if r.Truncated {
			undecided = append(undecided, "path limit exceeded in "+r.Short)
		}
		for _, e := range r.Errors {
			undecided = append(undecided, e)
		}
	}
	sort.Strings(undecided)
	for _, u := range undecided {
		if strings.HasPrefix(u, "contract error") {
			fmt.Fprintln(os.Stderr, "note: "+u)
		}
	}
	replayDir := filepath.Join(outBase(verif), "replay")
	os.MkdirAll(replayDir, 0o755)
	if olds, _ := filepath.Glob(filepath.Join(replayDir, prop+"-*.json")); len(olds) > 0 {
		for _, f := range olds {
			os.Remove(f) // replay files of earlier runs of this property
		}
	}
	discharged := 0
	total := 0
	for _, n := range order {
		a := aggs[n]
		total++
		if a.Kind == "canary" && len(a.Failed) < a.Instances {
			a.Failed = nil // some returning path is feasible and cannot prove false: not vacuous
		}
		if len(a.Failed) == 0 && !a.Vacuous {
			discharged++
			continue
		}
		if a.Vacuous && len(a.Failed) == 0 {
			// every path that reaches this obligation is infeasible under the contracts in force: the proof says nothing
			violations++
			exit = 1
			rp := filepath.Join(replayDir, prop+"-"+sanitizeFile(n)+".json")
			b, _ := json.MarshalIndent(map[string]any{"property": prop, "obligation": n, "kind": a.Kind, "clause": a.Src, "where": a.Where,
				"status": "vacuous", "reason": "no feasible path reaches this obligation (path conditions contradict the assumed contracts): discharged vacuously, nothing is proved", "instances": a.Instances}, "", " ")
			os.WriteFile(rp, b, 0o644)
			fmt.Printf("VIOLATION property=%s replay=%s obligation=%s (%s) at %s status=vacuous-no-feasible-path no-failing-input-found\n", prop, rp, n, trunc(a.Src, 100), a.Where)
			continue
		}
		if kf := isKnown(n); kf != nil {
			fmt.Printf("KNOWN-FINDING: property=%s %s: %s\n", prop, n, kf.Note)
			knownHit = append(knownHit, n)
			continue
		}
		violations++
		exit = 1
		f := a.Failed[0]
		rp := filepath.Join(replayDir, prop+"-"+sanitizeFile(n)+".json")
		replay := map[string]any{
			"property": prop, "obligation": n, "kind": a.Kind, "clause": a.Src, "where": a.Where, "path": f.Trail,
			"solver": f.Res.Solver, "status": f.Res.Status, "solver_output": trunc2(f.Res.Out, 6000), "smt_file": f.File,
			"failed_instances": len(a.Failed), "instances": a.Instances,
		}
		suffix := ""
		reproduced := tryReplay(eng, prop, a, f, replay)
		if !reproduced {
			suffix = " no-failing-input-found"
		}
		b, _ := json.MarshalIndent(replay, "", " ")
		os.WriteFile(rp, b, 0o644)
		fmt.Printf("VIOLATION property=%s replay=%s obligation=%s (%s) at %s status=%s%s\n", prop, rp, n, trunc(a.Src, 100), a.Where, f.Res.Status, suffix)
	}
	// anchors that vanished inside existing functions are failed obligations (the proof no longer goes through)
	for _, u := range undecided {
		if strings.Contains(u, "did not attach") {
			violations++
			exit = 1
			rp := filepath.Join(replayDir, prop+"-anchor-"+scriptHash(u)+".json")
			b, _ := json.MarshalIndent(map[string]any{"property": prop, "obligation": "anchor", "reason": u}, "", " ")
			os.WriteFile(rp, b, 0o644)
			fmt.Printf("VIOLATION property=%s replay=%s obligation-cannot-be-generated: %s no-failing-input-found\n", prop, rp, u)
		}
	}
	if exit == 0 && len(undecided) > 0 {
		for _, u := range undecided {
			fmt.Printf("UNDECIDED property=%s reason=%s\n", prop, u)
		}
		exit = 3
	}
	if total == 0 {
		fmt.Printf("UNDECIDED property=%s reason=no obligations generated\n", prop)
		exit = 3
	}
	bounded := runBounded(verif, prop)
	if tier == "thorough" {
		// thorough tier: the scenario of every defect ever repaired for this property is replayed on the real code of
		// the tree under check (the replay adapters of known_findings.txt `fixed:` lines): a scenario that fails again
		// is a violation with a failing input
		done := map[string]bool{}
		for _, kf := range known {
			if !kf.Fixed || kf.Prop != prop || kf.Oblig == "" {
				continue
			}
			for name, fr := range fixedReplays {
				if !strings.HasPrefix(name, kf.Oblig) || done[fr.tmpl+fr.run] {
					continue
				}
				done[fr.tmpl+fr.run] = true
				tb, err := os.ReadFile(filepath.Join(verif, "replay", fr.tmpl))
				if err != nil {
					continue
				}
				src := strings.ReplaceAll(string(tb), "{{ROUND}}", "7")
				failed, out := runOverlayTest(eng, fr.pkg, "zz_verif_replay_test.go", src, fr.run)
				res := boundedRes{Name: "scenario-replay:" + strings.TrimPrefix(fr.run, "race:"), Bound: "one scripted scenario of a repaired defect, run on the real code (a regression test, not a proof)", OK: !failed, Out: "template " + fr.tmpl}
				if failed {
					rp := filepath.Join(replayDir, prop+"-scenario-"+sanitizeFile(fr.run)+".json")
					jb, _ := json.MarshalIndent(map[string]any{"property": prop, "obligation": name, "replay": "the scenario of a repaired defect fails again on this tree", "replay_output": trunc2(out, 4000),
						"replay_cmd": "cd /repo && go test -overlay <overlay with " + fr.tmpl + "> -vet=off -count=1 -run " + strings.TrimPrefix(fr.run, "race:") + " ./" + fr.pkg + "/"}, "", " ")
					os.WriteFile(rp, jb, 0o644)
					fmt.Printf("VIOLATION property=%s replay=%s obligation=%s scenario of a repaired defect reproduces on the real code\n", prop, rp, name)
					violations++
					exit = 1
					res.Out = "FAILED: " + trunc2(out, 600)
				}
				bounded = append(bounded, res)
			}
		}
	}
	for _, b := range bounded {
		if !b.OK {
			if strings.HasPrefix(b.Name, "scenario-replay:") {
				continue // already reported above
			}
			if strings.Contains(b.Out, "VIOLATION(bounded)") {
				rp := filepath.Join(replayDir, prop+"-bounded-"+sanitizeFile(b.Name)+".json")
				jb, _ := json.MarshalIndent(map[string]any{"property": prop, "obligation": "bounded:" + b.Name, "bound": b.Bound, "replay": "failing input found by the bounded differential check on the real code", "replay_output": b.Out}, "", " ")
				os.WriteFile(rp, jb, 0o644)
				fmt.Printf("VIOLATION property=%s replay=%s bounded-check=%s: %s\n", prop, rp, b.Name, trunc(b.Out, 300))
				violations++
				exit = 1
				continue
			}
			fmt.Printf("UNDECIDED property=%s reason=bounded check could not run or an assumed contract failed: %s: %s\n", prop, b.Name, trunc(b.Out, 200))
			if exit == 0 {
				exit = 3
			}
		}
	}
	wall := time.Since(t0).Seconds()
	fmt.Printf("property=%s tier=%s functions=%d obligations=%d discharged=%d known=%d violations=%d load=%.1fs gen=%.1fs solver_cpu=%.1fs wall=%.1fs\n",
		prop, tier, len(results), total, discharged, len(knownHit), violations, loadS, genS, float64(solverMs)/1000, wall)
	if verbose {
		for _, n := range order {
			a := aggs[n]
			st := "ok"
			if len(a.Failed) > 0 {
				st = "FAIL(" + a.Failed[0].Res.Status + ")"
			} else if a.Vacuous {
				st = "VACUOUS"
			}
			fmt.Printf("  %-8s %-70s x%d %v %dms  %s\n", st, n, a.Instances, a.Solvers, a.Ms, trunc(a.Src, 80))
		}
		for _, r := range results {
			var ns []string
			for k, c := range r.Notes {
				ns = append(ns, fmt.Sprintf("%s x%d", k, c))
			}
			sort.Strings(ns)
			fmt.Printf("  func %s paths=%d obligs=%d %dms notes=%v\n", r.Short, r.Paths, len(r.Obligs), r.WallMs, ns)
		}
	}
	if writeEvidence {
		writeEvidenceFile(eng, verif, prop, tier, seed, results, aggs, order, total, discharged, violations, knownHit, undecided, solverMs, wall, bounded)
	}
	return exit
}

// coverAll: for every obligation (by name) at least one path instance must be reachable, i.e. its path condition must
// not be refutable. Instances are tried in order until one is not `unsat`; an obligation whose every instance sits on
// an infeasible path is vacuous. Obligations decided syntactically (goal folded to true) carry no path script and are
// skipped, as are canaries / vacuity checks (they are reachability checks themselves).
func (e *Engine) coverAll(aggs map[string]*obAgg, order []string) int64 {
	if os.Getenv("GOVC_NOCOVER") != "" {
		return 0
	}
	var wg sync.WaitGroup
	var ms int64
	var mu sync.Mutex
	sem := make(chan struct{}, 16)
	for _, n := range order {
		a := aggs[n]
		if a.Expect || len(a.Failed) > 0 {
			continue
		}
		switch a.Kind {
		case "post", "assert", "pre", "chaninv", "monitor", "inv.init", "inv.pres":
			// clauses somebody wrote: a clause no feasible path reaches proves nothing
		default:
			// implicit obligations (frame, nopanic, lock, nilchan, nonblock, delivery) on a dead defensive branch claim nothing
			continue
		}
		wg.Add(1)
		sem <- struct{}{}
		go func(a *obAgg) {
			defer wg.Done()
			defer func() { <-sem }()
			tried := 0
			for _, o := range a.All {
				if o.Cover == nil {
					continue
				}
				tried++
				r, _ := dischargeOne(o.Cover(), e.outDir, o.Name()+".cover", 2)
				mu.Lock()
				ms += r.Ms
				mu.Unlock()
				if r.Status != "unsat" {
					return
				}
			}
			if tried > 0 {
				a.Vacuous = true
			}
		}(a)
	}
	wg.Wait()
	return ms
}

func trunc2(s string, n int) string {
	if len(s) > n {
		return s[:n] + "...(truncated)"
	}
	return s
}

func writeEvidenceFile(eng *Engine, verif, prop, tier string, seed int, results []*FuncResult, aggs map[string]*obAgg, order []string, total, discharged, violations int, knownHit, undecided []string, solverMs int64, wall float64, bounded []boundedRes) {
	type fnEv struct {
		Name        string         `json:"name"`
		Obligations int            `json:"obligations"`
		Instances   int            `json:"path_instances"`
		Paths       int            `json:"paths"`
		Solvers     map[string]int `json:"discharged_by"`
		SolverMs    int64          `json:"solver_ms"`
		Abstracted  []string       `json:"abstracted,omitempty"`
	}
	var fns []fnEv
	dropped := map[string]int{}
	for _, r := range results {
		fe := fnEv{Name: r.Short, Paths: r.Paths, Solvers: map[string]int{}}
		names := map[string]bool{}
		for _, o := range r.Obligs {
			names[o.Name()] = true
			fe.Instances++
			fe.Solvers[o.Res.Solver]++
			fe.SolverMs += o.Res.Ms
		}
		fe.Obligations = len(names)
		for k, c := range r.Notes {
			fe.Abstracted = append(fe.Abstracted, k)
			dropped[k] += c
		}
		sort.Strings(fe.Abstracted)
		fns = append(fns, fe)
	}
	var samples []any
	for _, n := range order {
		a := aggs[n]
		if len(samples) < 6 && a.Kind != "vacuity" && a.Kind != "canary" {
			samples = append(samples, map[string]any{"obligation": n, "clause": a.Src, "where": a.Where, "path_instances": a.Instances, "discharged_by": a.Solvers})
		}
	}
	var obl []any
	for _, n := range order {
		a := aggs[n]
		st := "discharged"
		if len(a.Failed) > 0 {
			st = "failed:" + a.Failed[0].Res.Status
		}
		if a.Expect {
			if len(a.Failed) > 0 {
				st = "vacuity-check-failed"
			} else {
				st = "vacuity-check-passed(sat-as-required)"
			}
		}
		obl = append(obl, map[string]any{"name": n, "kind": a.Kind, "status": st, "instances": a.Instances, "ms": a.Ms})
	}
	used := map[string]bool{}
	eng.mu.Lock()
	for k := range eng.usedContracts {
		used[k] = true
	}
	eng.mu.Unlock()
	tb := eng.trustedBase(prop, used)
	tb = append(tb,
		"go/packages + go/types + go/ssa (x/tools v0.50.0) and govc's SSA-to-SMT translation",
		"SMT solvers z3 5.1.0, cvc5 1.0.x, z3 4.8.12 (an obligation counts as discharged when any one answers unsat)",
		"callees on the pure list (logging, tracing, metrics, fmt, context, time accessors) do not modify modelled state",
	)
	var drops []string
	for k, c := range dropped {
		drops = append(drops, fmt.Sprintf("%s (x%d)", k, c))
	}
	sort.Strings(drops)
	assumptions := []string{
		"integers: SMT Int with exact Go wrap-around semantics per operation (not idealised)",
		"float64: real arithmetic with IEEE-754 relative error 2^-53 per operation, exact on representable integers |x|<=2^53; no NaN/Inf",
		"[]byte and string contents are abstract immutable values (length, equality, concatenation only)",
		"goroutine interleavings are not modelled beyond declared rely clauses, lock / monitor / channel invariants: each function is verified sequentially; at a `go` statement only the preconditions of the started function are obligations, its effects are not part of the caller's state",
		"termination is not verified",
		"heap model: one SMT array per struct field (Burstall-Bornat); unsafe/reflect not modelled",
	}
	// obligations listed as known findings are genuine, recorded defects: they are not part of what this run claims to
	// have proved and are reported separately, so that discharged == obligations states exactly "everything claimed was proved"
	cov := map[string]any{
		"obligations": total - len(knownHit), "discharged": discharged,
		"obligations_generated": total, "known_finding_obligations": len(knownHit),
		"checker_cmd":  fmt.Sprintf("/verif/bin/govc check %s -tier %s", prop, tier),
		"trusted_base": tb, "functions_under_contract": fns, "solver_time_s": float64(solverMs) / 1000,
		"samples": samples, "obligation_list": obl, "dropped_by_translation": drops,
		"known_findings": knownHit, "undecided": undecided,
		"contract_sources": eng.cs.Sources,
		"back_ends":        []string{"z3-5.1.0 (z3-new)", "cvc5-1.0", "z3-4.8.12"},
		"bounded":          bounded,
	}
	ev := map[string]any{
		"property_id": prop, "tier": tier, "seed": seed, "level": "proof",
		"coverage": cov, "assumptions": assumptions, "wall_s": wall, "violations": violations,
	}
	b, _ := json.MarshalIndent(ev, "", " ")
	os.MkdirAll(filepath.Join(verif, "evidence"), 0o755)
	os.WriteFile(filepath.Join(verif, "evidence", prop+".json"), b, 0o644)
}

type boundedRes struct {
	Name  string `json:"name"`
	Bound string `json:"bound"`
	OK    bool   `json:"passed"`
	Out   string `json:"output"`
}

// runBounded runs the bounded stand-ins registered for a property (never counted as discharged).
func runBounded(verif, prop string) []boundedRes {
	out := []boundedRes{}
	b, err := os.ReadFile(filepath.Join(verif, "bounded", "index.json"))
	if err != nil {
		return out
	}
	var idx map[string][]struct {
		Name, Bin, Bound string
		Overlay          *struct{ Tmpl, Pkg, Run string }
	}
	if json.Unmarshal(b, &idx) != nil {
		return out
	}
	for _, e := range idx[prop] {
		if e.Overlay != nil {
			// bounded stand-in that exercises the real package: a test injected through go test -overlay
			tb, err := os.ReadFile(filepath.Join(verif, e.Overlay.Tmpl))
			if err != nil {
				out = append(out, boundedRes{Name: e.Name, Bound: e.Bound, OK: false, Out: "template missing"})
				continue
			}
			eng := &Engine{repo: "/repo", verifDir: verif}
			if r := os.Getenv("GOVC_REPO"); r != "" {
				eng.repo = r
			}
			failed, o := runOverlayTest(eng, e.Overlay.Pkg, "zz_verif_bounded_test.go", string(tb), e.Overlay.Run)
			passed := !failed && strings.Contains(o, "ok  \t")
			var keep []string
			for _, l := range strings.Split(o, "\n") {
				if strings.Contains(l, "VIOLATION") || strings.Contains(l, "bounded") || strings.HasPrefix(l, "ok") || strings.HasPrefix(l, "FAIL") {
					keep = append(keep, strings.TrimSpace(l))
				}
			}
			out = append(out, boundedRes{Name: e.Name, Bound: e.Bound, OK: passed, Out: trunc2(strings.Join(keep, " | "), 1500)})
			continue
		}
		cmd := exec.Command(filepath.Join(verif, e.Bin))
		o, err := cmd.CombinedOutput()
		out = append(out, boundedRes{Name: e.Name, Bound: e.Bound, OK: err == nil, Out: strings.TrimSpace(string(o))})
	}
	return out
}
