package main

import (
	"fmt"
	"go/types"
	"os"
	"path/filepath"
	"sort"
	"strings"
	"sync"

	"golang.org/x/tools/go/packages"
	"golang.org/x/tools/go/ssa"
	"golang.org/x/tools/go/ssa/ssautil"
)

const modPath = "github.com/drand/drand/v2"

type Engine struct {
	repo      string
	verifDir  string
	prog      *ssa.Program
	pkgs      map[string]*ssa.Package
	tpkgs     map[string]*packages.Package
	cs        *Contracts
	mu        sync.Mutex
	typeTags  map[string]int
	fieldIDs  map[string]int
	anonIDs   map[string]int
	strLits   map[string]string
	strOrder  []string
	heapSorts map[string]string
	outDir    string
	timeoutS  int
	race      bool
	maxPaths  int
	funcsByKey map[string]*ssa.Function
	nopanicAll bool
	cerrs map[string]bool
	usedContracts map[string]bool
}

func (e *Engine) noteHeapSort(key, as string) {
	e.mu.Lock()
	if _, ok := e.heapSorts[key]; !ok {
		e.heapSorts[key] = as
	}
	e.mu.Unlock()
}

func (e *Engine) heapSort(key string) string {
	e.mu.Lock()
	defer e.mu.Unlock()
	return e.heapSorts[key]
}

func (e *Engine) typeTag(t types.Type) int {
	k := typeKey(t)
	e.mu.Lock()
	defer e.mu.Unlock()
	if id, ok := e.typeTags[k]; ok {
		return id
	}
	id := len(e.typeTags) + 1
	e.typeTags[k] = id
	return id
}

func (e *Engine) fieldID(key string) int {
	e.mu.Lock()
	defer e.mu.Unlock()
	if id, ok := e.fieldIDs[key]; ok {
		return id
	}
	id := len(e.fieldIDs) + 1
	e.fieldIDs[key] = id
	return id
}

func (e *Engine) anonID(key string) int {
	e.mu.Lock()
	defer e.mu.Unlock()
	if id, ok := e.anonIDs[key]; ok {
		return id
	}
	id := len(e.anonIDs) + 1
	e.anonIDs[key] = id
	return id
}

func (e *Engine) strLit(s string) string {
	e.mu.Lock()
	defer e.mu.Unlock()
	if n, ok := e.strLits[s]; ok {
		return n
	}
	if s == "" {
		e.strLits[s] = "str_empty"
		return "str_empty"
	}
	n := fmt.Sprintf("strlit!%d", len(e.strLits))
	e.strLits[s] = n
	e.strOrder = append(e.strOrder, s)
	return n
}

// prelude emits the fixed declarations plus ghost functions and string literals.
func (e *Engine) prelude() string {
	var b strings.Builder
	b.WriteString(preludeBase)
	e.mu.Lock()
	var names []string
	for _, s := range e.strOrder {
		n := e.strLits[s]
		names = append(names, n)
		fmt.Fprintf(&b, "(declare-fun %s () Str) ; %q\n(assert (= (str_len %s) %d))\n", n, trunc(s, 60), n, len(s))
	}
	if len(names) > 0 {
		fmt.Fprintf(&b, "(assert (distinct str_empty %s))\n", strings.Join(names, " "))
	}
	e.mu.Unlock()
	var gs []string
	for n := range e.cs.Ghosts {
		gs = append(gs, n)
	}
	sort.Strings(gs)
	for _, n := range gs {
		g := e.cs.Ghosts[n]
		if g.Field {
			continue
		}
		var ps []string
		for _, p := range g.Params {
			ps = append(ps, specSort(p))
		}
		fmt.Fprintf(&b, "(declare-fun %s (%s) %s)\n", sym("g_"+n), strings.Join(ps, " "), specSort(g.Result))
	}
	return b.String()
}

func trunc(s string, n int) string {
	s = strings.ReplaceAll(s, "\n", " ")
	if len(s) > n {
		return s[:n]
	}
	return s
}

func specSort(t string) string {
	switch t {
	case "int", "ref", "uint64", "int64", "uint32", "any":
		return SInt
	case "bool":
		return SBool
	case "bytes":
		return SBytes
	case "string", "str":
		return SStr
	case "real", "float64":
		return SReal
	case "iface", "error":
		return SIface
	case "slice":
		return SSlice
	}
	if strings.HasPrefix(t, "*") {
		return SInt // typed reference (Go pointer type named in the declaration)
	}
	panic("unknown spec type " + t)
}

func loadEngine(repo, verifDir string, patterns []string) (*Engine, error) {
	cfg := &packages.Config{
		Mode: packages.NeedName | packages.NeedFiles | packages.NeedCompiledGoFiles | packages.NeedImports | packages.NeedTypes |
			packages.NeedTypesSizes | packages.NeedSyntax | packages.NeedTypesInfo | packages.NeedDeps,
		Dir:        repo,
		BuildFlags: []string{"-tags=verif"},
		Env:        append(os.Environ(), "GOFLAGS=-mod=mod", "GOPROXY=off", "GOSUMDB=off", "GOTOOLCHAIN=local"),
	}
	pkgs, err := packages.Load(cfg, patterns...)
	if err != nil {
		return nil, err
	}
	var errs []string
	packages.Visit(pkgs, nil, func(p *packages.Package) {
		if strings.HasPrefix(p.PkgPath, modPath) {
			for _, e := range p.Errors {
				errs = append(errs, e.Error())
			}
		}
	})
	if len(errs) > 0 {
		return nil, fmt.Errorf("package load errors: %s", strings.Join(errs, "; "))
	}
	prog, spkgs := ssautil.Packages(pkgs, ssa.InstantiateGenerics|ssa.GlobalDebug)
	e := &Engine{repo: repo, verifDir: verifDir, prog: prog, pkgs: map[string]*ssa.Package{}, tpkgs: map[string]*packages.Package{},
		typeTags: map[string]int{}, fieldIDs: map[string]int{}, anonIDs: map[string]int{}, strLits: map[string]string{},
		heapSorts: map[string]string{}, cs: newContracts(), timeoutS: 10, maxPaths: 4000, funcsByKey: map[string]*ssa.Function{}, usedContracts: map[string]bool{}}
	for i, p := range spkgs {
		if p == nil {
			continue
		}
		p.Build()
		e.pkgs[p.Pkg.Path()] = p
		e.tpkgs[p.Pkg.Path()] = pkgs[i]
	}
	for fn := range ssautil.AllFunctions(prog) {
		if fn.Pkg != nil && strings.HasPrefix(fn.Pkg.Pkg.Path(), modPath) {
			e.funcsByKey[funcKey(fn)] = fn
		}
	}
	// contracts: repo copy first, mirror as fallback; plus shared externs from /verif/contracts
	for path, tp := range e.tpkgs {
		if len(tp.GoFiles) == 0 && len(tp.CompiledGoFiles) == 0 {
			continue
		}
		rel := strings.TrimPrefix(strings.TrimPrefix(path, modPath), "/")
		inRepo := filepath.Join(repo, rel, "zz_verif_contracts.go")
		mirror := filepath.Join(verifDir, "contracts", rel, "zz_verif_contracts.go")
		use := ""
		if _, err := os.Stat(inRepo); err == nil {
			use = inRepo
		} else if _, err := os.Stat(mirror); err == nil {
			use = mirror
		}
		if use != "" {
			if err := e.cs.loadFile(use, path); err != nil {
				return nil, err
			}
			e.cs.Sources[path] = use
		}
	}
	shared, _ := filepath.Glob(filepath.Join(verifDir, "contracts", "*.contracts"))
	sort.Strings(shared)
	for _, f := range shared {
		if err := e.cs.loadFile(f, ""); err != nil {
			return nil, err
		}
	}
	return e, nil
}

// funcKey is the canonical name used in contract files.
func funcKey(fn *ssa.Function) string {
	s := fn.String()
	// strip generic instantiation brackets for lookup simplicity
	return s
}

func shortFuncName(key string) string {
	// (*pkg/path.T).M -> (*T).M ; pkg/path.F -> F
	if strings.HasPrefix(key, "(") {
		i := strings.LastIndex(key, "/")
		if i < 0 {
			return key
		}
		j := strings.Index(key[i:], ".")
		pre := "("
		if strings.HasPrefix(key, "(*") {
			pre = "(*"
		}
		return pre + key[i+j+1:]
	}
	i := strings.LastIndex(key, "/")
	j := strings.Index(key[i+1:], ".")
	if j < 0 {
		return key
	}
	return key[i+1+j+1:]
}
