package main

import (
	"encoding/hex"
	"crypto/sha256"
	"hash/fnv"
	"fmt"
	"go/types"
	"os"
	"path/filepath"
	"sort"
	"strings"
	"sync"

	"golang.org/x/tools/go/packages"
	"golang.org/x/tools/go/ssa"
	"golang.org/x/tools/go/ssa/ssautil"
)

const modPath = "github.com/drand/drand/v2"

type Engine struct {
	repo      string
	verifDir  string
	prog      *ssa.Program
	pkgs      map[string]*ssa.Package
	tpkgs     map[string]*packages.Package
	cs        *Contracts
	mu        sync.Mutex
	typeTags  map[string]int
	fieldIDs  map[string]int
	anonIDs   map[string]int
	strLits   map[string]string
	strOrder  []string
	knownObligs map[string]bool // obligation names listed as known findings for the property being checked
	extraErrors []string        // obligations that could not be generated outside any function under contract (nopanicarg)
	usedTags, usedFields, usedAnons map[int]string
	heapSorts map[string]string
	outDir    string
	timeoutS  int
	race      bool
	maxPaths  int
	funcsByKey map[string]*ssa.Function
	nopanicAll bool
	cerrs map[string]bool
	usedContracts map[string]bool
}

func (e *Engine) noteHeapSort(key, as string) {
	e.mu.Lock()
	if _, ok := e.heapSorts[key]; !ok {
		e.heapSorts[key] = as
	}
	e.mu.Unlock()
}

func (e *Engine) heapSort(key string) string {
	e.mu.Lock()
	defer e.mu.Unlock()
	return e.heapSorts[key]
}

// stableID: identifiers that end up in SMT scripts are derived from the key itself, not from the order in which the
// (parallel) verification first meets it, so that the same tree always yields the same scripts.
func stableID(m map[string]int, used map[int]string, key string) int {
	if id, ok := m[key]; ok {
		return id
	}
	h := fnv.New32a()
	h.Write([]byte(key))
	id := int(h.Sum32()&0x3fffffff) + 1000
	for {
		if o, clash := used[id]; !clash || o == key {
			break
		}
		id++ // deterministic unless two colliding keys race, which needs a 30-bit collision first
	}
	m[key] = id
	used[id] = key
	return id
}

func (e *Engine) typeTag(t types.Type) int {
	k := typeKey(t)
	e.mu.Lock()
	defer e.mu.Unlock()
	if e.usedTags == nil {
		e.usedTags, e.usedFields, e.usedAnons = map[int]string{}, map[int]string{}, map[int]string{}
	}
	return stableID(e.typeTags, e.usedTags, k)
}

func (e *Engine) fieldID(key string) int {
	e.mu.Lock()
	defer e.mu.Unlock()
	if e.usedTags == nil {
		e.usedTags, e.usedFields, e.usedAnons = map[int]string{}, map[int]string{}, map[int]string{}
	}
	return stableID(e.fieldIDs, e.usedFields, key)
}

func (e *Engine) anonID(key string) int {
	e.mu.Lock()
	defer e.mu.Unlock()
	if e.usedTags == nil {
		e.usedTags, e.usedFields, e.usedAnons = map[int]string{}, map[int]string{}, map[int]string{}
	}
	return stableID(e.anonIDs, e.usedAnons, key)
}

func (e *Engine) strLit(s string) string {
	e.mu.Lock()
	defer e.mu.Unlock()
	if n, ok := e.strLits[s]; ok {
		return n
	}
	if s == "" {
		e.strLits[s] = "str_empty"
		return "str_empty"
	}
	h := sha256.Sum256([]byte(s))
	n := "strlit!" + hex.EncodeToString(h[:6])
	e.strLits[s] = n
	e.strOrder = append(e.strOrder, s)
	return n
}

// prelude emits the fixed declarations plus ghost functions and string literals.
func (e *Engine) prelude(body string) string {
	var b strings.Builder
	b.WriteString(preludeBase)
	e.mu.Lock()
	// only the string literals the query mentions, in name order
	type lit struct{ n, s string }
	var lits []lit
	for _, s := range e.strOrder {
		n := e.strLits[s]
		if strings.Contains(body, n) {
			lits = append(lits, lit{n, s})
		}
	}
	sort.Slice(lits, func(i, j int) bool { return lits[i].n < lits[j].n })
	var names []string
	for _, l := range lits {
		names = append(names, l.n)
		fmt.Fprintf(&b, "(declare-fun %s () Str) ; %q\n(assert (= (str_len %s) %d))\n", l.n, trunc(l.s, 60), l.n, len(l.s))
	}
	if len(names) > 0 {
		fmt.Fprintf(&b, "(assert (distinct str_empty %s))\n", strings.Join(names, " "))
	}
	e.mu.Unlock()
	var gs []string
	for n := range e.cs.Ghosts {
		gs = append(gs, n)
	}
	sort.Strings(gs)
	for _, n := range gs {
		g := e.cs.Ghosts[n]
		if g.Field {
			continue
		}
		var ps []string
		for _, p := range g.Params {
			ps = append(ps, specSort(p))
		}
		fmt.Fprintf(&b, "(declare-fun %s (%s) %s)\n", sym("g_"+n), strings.Join(ps, " "), specSort(g.Result))
	}
	return b.String()
}

func trunc(s string, n int) string {
	s = strings.ReplaceAll(s, "\n", " ")
	if len(s) > n {
		return s[:n]
	}
	return s
}

func specSort(t string) string {
	switch t {
	case "int", "ref", "uint64", "int64", "uint32", "any":
		return SInt
	case "bool":
		return SBool
	case "bytes":
		return SBytes
	case "string", "str":
		return SStr
	case "real", "float64":
		return SReal
	case "iface", "error":
		return SIface
	case "slice":
		return SSlice
	}
	if strings.HasPrefix(t, "*") {
		return SInt // typed reference (Go pointer type named in the declaration)
	}
	panic("unknown spec type " + t)
}

func loadEngine(repo, verifDir string, patterns []string) (*Engine, error) {
	cfg := &packages.Config{
		Mode: packages.NeedName | packages.NeedFiles | packages.NeedCompiledGoFiles | packages.NeedImports | packages.NeedTypes |
			packages.NeedTypesSizes | packages.NeedSyntax | packages.NeedTypesInfo | packages.NeedDeps,
		Dir:        repo,
		BuildFlags: []string{"-tags=verif"},
		Env:        append(os.Environ(), "GOFLAGS=-mod=mod", "GOPROXY=off", "GOSUMDB=off", "GOTOOLCHAIN=local"),
	}
	pkgs, err := packages.Load(cfg, patterns...)
	if err != nil {
		return nil, err
	}
	var errs []string
	packages.Visit(pkgs, nil, func(p *packages.Package) {
		if strings.HasPrefix(p.PkgPath, modPath) {
			for _, e := range p.Errors {
				errs = append(errs, e.Error())
			}
		}
	})
	if len(errs) > 0 {
		return nil, fmt.Errorf("package load errors: %s", strings.Join(errs, "; "))
	}
	prog, spkgs := ssautil.Packages(pkgs, ssa.InstantiateGenerics|ssa.GlobalDebug)
	e := &Engine{repo: repo, verifDir: verifDir, prog: prog, pkgs: map[string]*ssa.Package{}, tpkgs: map[string]*packages.Package{},
		typeTags: map[string]int{}, fieldIDs: map[string]int{}, anonIDs: map[string]int{}, strLits: map[string]string{},
		heapSorts: map[string]string{}, cs: newContracts(), timeoutS: 10, maxPaths: 4000, funcsByKey: map[string]*ssa.Function{}, usedContracts: map[string]bool{}}
	for i, p := range spkgs {
		if p == nil {
			continue
		}
		p.Build()
		e.pkgs[p.Pkg.Path()] = p
		e.tpkgs[p.Pkg.Path()] = pkgs[i]
	}
	for fn := range ssautil.AllFunctions(prog) {
		if fn.Pkg != nil && strings.HasPrefix(fn.Pkg.Pkg.Path(), modPath) {
			e.funcsByKey[funcKey(fn)] = fn
		}
	}
	// contracts: repo copy first, mirror as fallback; plus shared externs from /verif/contracts
	var tpaths []string
	for path := range e.tpkgs {
		tpaths = append(tpaths, path)
	}
	sort.Strings(tpaths) // fixed load order: the order of axioms in every script follows it
	for _, path := range tpaths {
		tp := e.tpkgs[path]
		if len(tp.GoFiles) == 0 && len(tp.CompiledGoFiles) == 0 {
			continue
		}
		rel := strings.TrimPrefix(strings.TrimPrefix(path, modPath), "/")
		inRepo := filepath.Join(repo, rel, "zz_verif_contracts.go")
		mirror := filepath.Join(verifDir, "contracts", rel, "zz_verif_contracts.go")
		use := ""
		if _, err := os.Stat(inRepo); err == nil {
			use = inRepo
		} else if _, err := os.Stat(mirror); err == nil {
			use = mirror
		}
		if use != "" {
			if err := e.cs.loadFile(use, path); err != nil {
				return nil, err
			}
			e.cs.Sources[path] = use
		}
	}
	shared, _ := filepath.Glob(filepath.Join(verifDir, "contracts", "*.contracts"))
	sort.Strings(shared)
	for _, f := range shared {
		if err := e.cs.loadFile(f, ""); err != nil {
			return nil, err
		}
	}
	return e, nil
}

// funcKey is the canonical name used in contract files.
func funcKey(fn *ssa.Function) string {
	s := fn.String()
	// strip generic instantiation brackets for lookup simplicity
	return s
}

func shortFuncName(key string) string {
	// (*pkg/path.T).M -> (*T).M ; pkg/path.F -> F
	if strings.HasPrefix(key, "(") {
		i := strings.LastIndex(key, "/")
		if i < 0 {
			return key
		}
		j := strings.Index(key[i:], ".")
		pre := "("
		if strings.HasPrefix(key, "(*") {
			pre = "(*"
		}
		return pre + key[i+j+1:]
	}
	i := strings.LastIndex(key, "/")
	j := strings.Index(key[i+1:], ".")
	if j < 0 {
		return key
	}
	return key[i+1+j+1:]
}
