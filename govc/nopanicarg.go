package main

import (
	"sort"
	"strings"

	"golang.org/x/tools/go/ssa"
)

// addNoPanicArgContracts: for every declaration `nopanicarg <callee> <k>` finds the calls of <callee> in the loaded
// packages and puts the function handed over as argument k under a synthetic contract `flags nopanic` (property C14):
// such a function runs where a panic is not contained (the recovery handler of the gRPC recovery interceptor runs inside
// the deferred recover itself), so every panic point in it has to be unreachable. A function value that is not a
// function literal or a named function of the repository cannot be followed: that is reported as an error of the
// check (obligation cannot be generated), not passed over.
func (e *Engine) addNoPanicArgContracts() {
	if len(e.cs.NoPanicArgs) == 0 {
		return
	}
	var keys []string
	for k := range e.funcsByKey {
		keys = append(keys, k)
	}
	sort.Strings(keys)
	for _, k := range keys {
		fn := e.funcsByKey[k]
		if len(fn.Blocks) == 0 || fn.Pkg == nil || !strings.HasPrefix(fn.Pkg.Pkg.Path(), modPath) {
			continue
		}
		if pos := e.prog.Fset.Position(fn.Pos()); strings.HasSuffix(pos.Filename, "_test.go") {
			continue
		}
		for _, b := range fn.Blocks {
			for _, in := range b.Instrs {
				ci, ok := in.(ssa.CallInstruction)
				if !ok {
					continue
				}
				cc := ci.Common()
				key := e.calleeKey(cc)
				for _, d := range e.cs.NoPanicArgs {
					if key != d.Callee || d.Arg >= len(cc.Args) {
						continue
					}
					var target *ssa.Function
					v := cc.Args[d.Arg]
					for {
						if ct, ok := v.(*ssa.ChangeType); ok {
							v = ct.X
							continue
						}
						break
					}
					switch a := v.(type) {
					case *ssa.Function:
						target = a
					case *ssa.MakeClosure:
						target, _ = a.Fn.(*ssa.Function)
					}
					if target == nil {
						e.extraErrors = append(e.extraErrors, e.prog.Fset.Position(in.Pos()).String()+": no-panic obligation did not attach: argument of "+d.Callee+" is not a function literal or named function")
						continue
					}
					tk := funcKey(target)
					fc := e.cs.Funcs[tk]
					if fc == nil {
						fc = &FuncContract{Kind: "func", Key: tk, Flags: map[string]bool{}, Props: map[string]bool{}, Loops: map[int][]*Clause{}, File: d.File, Line: d.Line}
						if target.Pkg != nil {
							fc.PkgPath = target.Pkg.Pkg.Path()
						} else if target.Parent() != nil && target.Parent().Pkg != nil {
							fc.PkgPath = target.Parent().Pkg.Pkg.Path()
						}
						for _, p := range target.Params {
							fc.Params = append(fc.Params, p.Name())
						}
						e.cs.Funcs[tk] = fc
					}
					fc.Flags["nopanic"] = true
					fc.Flags["capturednonnil"] = true
					delete(fc.Flags, "recovered")
					fc.Props["C14"] = true
				}
			}
		}
	}
}
