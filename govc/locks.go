package main

// Callee lock summaries: which mutexes (as field paths rooted at a parameter) a function acquires, directly or
// through static calls. A caller that holds such a mutex while calling the function self-deadlocks
// (sync.Mutex / RWMutex are not re-entrant). Summaries are inferred mechanically from the callee's SSA.

import (
	"fmt"
	"go/types"

	"golang.org/x/tools/go/ssa"
)

type lockAcq struct {
	param int
	path  []int // field indices from the parameter's pointee struct down to the mutex
	types []types.Type
	write bool
	where string
}

var lockSumCache = map[*ssa.Function][]lockAcq{}

func (e *Engine) lockSummary(fn *ssa.Function, depth int) []lockAcq {
	if fn == nil || len(fn.Blocks) == 0 || depth > 3 {
		return nil
	}
	e.mu.Lock()
	if s, ok := lockSumCache[fn]; ok {
		e.mu.Unlock()
		return s
	}
	lockSumCache[fn] = nil // recursion guard
	e.mu.Unlock()
	var out []lockAcq
	paramIdx := map[ssa.Value]int{}
	for i, p := range fn.Params {
		paramIdx[p] = i
	}
	// resolve a value to (param, field path)
	var resolve func(v ssa.Value) (int, []int, []types.Type, bool)
	resolve = func(v ssa.Value) (int, []int, []types.Type, bool) {
		switch x := v.(type) {
		case *ssa.Parameter:
			if i, ok := paramIdx[x]; ok {
				return i, nil, nil, true
			}
		case *ssa.FieldAddr:
			p, path, ts, ok := resolve(x.X)
			if ok {
				st := x.X.Type().Underlying().(*types.Pointer).Elem()
				return p, append(append([]int(nil), path...), x.Field), append(append([]types.Type(nil), ts...), st), true
			}
		}
		return 0, nil, nil, false
	}
	for _, b := range fn.Blocks {
		for _, in := range b.Instrs {
			var cc *ssa.CallCommon
			switch c := in.(type) {
			case *ssa.Call:
				cc = &c.Call
			case *ssa.Defer:
				continue // deferred unlocks / calls run at exit
			}
			if cc == nil || cc.IsInvoke() {
				continue
			}
			callee, _ := cc.Value.(*ssa.Function)
			if callee == nil {
				continue
			}
			k := callee.String()
			pos := e.prog.Fset.Position(in.Pos())
			where := fmt.Sprintf("%s:%d", pos.Filename, pos.Line)
			switch k {
			case "(*sync.Mutex).Lock", "(*sync.RWMutex).Lock", "(*sync.RWMutex).RLock":
				if p, path, ts, ok := resolve(cc.Args[0]); ok {
					out = append(out, lockAcq{p, path, ts, k != "(*sync.RWMutex).RLock", where})
				}
			default:
				if callee.Pkg != nil && len(callee.Blocks) > 0 {
					for _, a := range e.lockSummary(callee, depth+1) {
						if a.param < len(cc.Args) {
							if p, path, ts, ok := resolve(cc.Args[a.param]); ok {
								out = append(out, lockAcq{p, append(append([]int(nil), path...), a.path...), append(append([]types.Type(nil), ts...), a.types...), a.write, a.where})
							}
						}
					}
				}
			}
		}
	}
	e.mu.Lock()
	lockSumCache[fn] = out
	e.mu.Unlock()
	return out
}

// checkCalleeLocks: at a call to a function that is not inlined, none of the mutexes it acquires may be held.
func (vf *VerifyFunc) checkCalleeLocks(st *State, in ssa.Instruction, callee *ssa.Function, args []*Val, label callLabel) {
	if !vf.lockcheck || callee == nil {
		return
	}
	seen := map[string]bool{}
	for _, a := range vf.eng.lockSummary(callee, 0) {
		if a.param >= len(args) || args[a.param].S != SInt {
			continue
		}
		ref := args[a.param].Tm
		for i, f := range a.path {
			key, _ := vf.eng.fieldKey(a.types[i], f)
			ref = st.subObj(ref, key)
		}
		if seen[ref] {
			continue
		}
		seen[ref] = true
		w := sel(st.heapGet("L:w", "(Array Int Bool)"), ref)
		r := sel(st.heapGet("L:r", "(Array Int Int)"), ref)
		goal := not(w)
		if a.write {
			goal = and(not(w), eq(r, "0"))
		}
		st.check("lock", fmt.Sprintf("callee-acquires-lock-held-by-caller/%s#%d", label.name, label.ord), "C14",
			"call to "+shortFuncName(funcKey(callee))+" which locks a mutex (at "+trimRepo(vf.eng.repo, a.where)+") that the caller may already hold: self-deadlock", st.pos(in), goal)
	}
}

func trimRepo(repo, s string) string {
	if len(s) > len(repo)+1 && s[:len(repo)] == repo {
		return s[len(repo)+1:]
	}
	return s
}
