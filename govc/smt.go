package main

// SMT-LIB helpers: sorts, prelude, solver invocation.

import (
	"bytes"
	"context"
	"crypto/sha256"
	"encoding/hex"
	"fmt"
	"math/big"
	"os"
	"os/exec"
	"path/filepath"
	"regexp"
	"strings"
	"sync"
	"time"
)

const (
	SInt   = "Int"
	SBool  = "Bool"
	SReal  = "Real"
	SStr   = "Str"
	SBytes = "Bytes"
	SSlice = "Slice"
	SIface = "Iface"
)

var reSimpleSym = regexp.MustCompile(`^[A-Za-z_][A-Za-z0-9_!.$]*$`)

func sym(s string) string {
	if reSimpleSym.MatchString(s) {
		return s
	}
	s = strings.ReplaceAll(s, "|", "_")
	s = strings.ReplaceAll(s, "\\", "_")
	return "|" + s + "|"
}

func pow2(k int) *big.Int { return new(big.Int).Lsh(big.NewInt(1), uint(k)) }

func num(i *big.Int) string {
	if i.Sign() < 0 {
		return "(- " + new(big.Int).Neg(i).String() + ")"
	}
	return i.String()
}
func numI(i int64) string { return num(big.NewInt(i)) }

func and(xs ...string) string {
	var ys []string
	for _, x := range xs {
		if x == "true" || x == "" {
			continue
		}
		if x == "false" {
			return "false"
		}
		ys = append(ys, x)
	}
	if len(ys) == 0 {
		return "true"
	}
	if len(ys) == 1 {
		return ys[0]
	}
	return "(and " + strings.Join(ys, " ") + ")"
}
func or(xs ...string) string {
	var ys []string
	for _, x := range xs {
		if x == "false" || x == "" {
			continue
		}
		if x == "true" {
			return "true"
		}
		ys = append(ys, x)
	}
	if len(ys) == 0 {
		return "false"
	}
	if len(ys) == 1 {
		return ys[0]
	}
	return "(or " + strings.Join(ys, " ") + ")"
}
func not(x string) string {
	switch x {
	case "true":
		return "false"
	case "false":
		return "true"
	}
	if strings.HasPrefix(x, "(not ") && balanced(x[5:len(x)-1]) {
		return x[5 : len(x)-1]
	}
	return "(not " + x + ")"
}
func balanced(s string) bool {
	d := 0
	for _, c := range s {
		if c == '(' {
			d++
		} else if c == ')' {
			d--
			if d < 0 {
				return false
			}
		}
	}
	return d == 0
}
func implies(a, b string) string {
	if a == "true" {
		return b
	}
	if a == "false" || b == "true" {
		return "true"
	}
	return "(=> " + a + " " + b + ")"
}
func eq(a, b string) string {
	if a == b {
		return "true"
	}
	return "(= " + a + " " + b + ")"
}
func ite(c, a, b string) string {
	if c == "true" {
		return a
	}
	if c == "false" {
		return b
	}
	if a == b {
		return a
	}
	return "(ite " + c + " " + a + " " + b + ")"
}
func sel(a, i string) string      { return "(select " + a + " " + i + ")" }
func store(a, i, v string) string { return "(store " + a + " " + i + " " + v + ")" }

func zeroOfSort(s string) string {
	switch s {
	case SInt:
		return "0"
	case SBool:
		return "false"
	case SReal:
		return "0.0"
	case SStr:
		return "str_empty"
	case SBytes:
		return "bytes_nil"
	case SSlice:
		return "slice_nil"
	case SIface:
		return "iface_nil"
	}
	panic("zeroOfSort " + s)
}

const preludeBase = `(set-option :produce-models true)
(set-logic ALL)
(declare-sort Str 0)
(declare-sort Bytes 0)
(declare-datatypes ((Slice 0)) (((mk_slice (s_base Int) (s_off Int) (s_len Int) (s_cap Int)))))
(declare-datatypes ((Iface 0)) (((mk_iface (i_tag Int) (i_val Int)))))
(define-fun slice_nil () Slice (mk_slice 0 0 0 0))
(define-fun iface_nil () Iface (mk_iface 0 0))
(declare-fun str_empty () Str)
(declare-fun str_len (Str) Int)
(declare-fun str_cat (Str Str) Str)
(declare-fun str_at (Str Int) Int)
(declare-fun str_sub (Str Int Int) Str)
(declare-fun str_lt (Str Str) Bool)
(declare-fun str_of_bytes (Bytes) Str)
(declare-fun bytes_of_str (Str) Bytes)
(declare-fun str_of_int (Int) Str)
(declare-fun bytes_nil () Bytes)
(declare-fun bytes_len (Bytes) Int)
(declare-fun bytes_at (Bytes Int) Int)
(declare-fun bytes_sub (Bytes Int Int) Bytes)
(declare-fun bytes_cat (Bytes Bytes) Bytes)
(declare-fun bytes_upd (Bytes Int Int) Bytes)
(define-fun bytes_eq ((a Bytes) (b Bytes)) Bool (or (= a b) (and (= (bytes_len a) 0) (= (bytes_len b) 0))))
(declare-fun fld_addr (Int Int) Int)
(declare-fun fld_base (Int) Int)
(declare-fun fld_id (Int) Int)
(declare-fun obj_root (Int) Int)
(declare-fun elemtag (Int) Int)
(declare-fun sidx (Int Int) Int)
(assert (forall ((o Int) (k Int)) (! (= (sidx o k) (+ o k)) :pattern ((sidx o k)))))
(declare-fun wraps (Iface Iface) Bool)
(declare-fun box_Str (Str) Int)
(declare-fun unbox_Str (Int) Str)
(declare-fun box_Bytes (Bytes) Int)
(declare-fun unbox_Bytes (Int) Bytes)
(declare-fun box_Real (Real) Int)
(declare-fun unbox_Real (Int) Real)
(declare-fun box_Slice (Slice) Int)
(declare-fun unbox_Slice (Int) Slice)
(declare-fun box_Bool (Bool) Int)
(declare-fun unbox_Bool (Int) Bool)
(declare-fun box_struct (Int Int) Int)
(declare-fun chan_cap (Int) Int)
(declare-fun uf_bitand (Int Int) Int)
(declare-fun uf_bitor (Int Int) Int)
(declare-fun uf_bitxor (Int Int) Int)
(declare-fun uf_fdiv (Real Real) Real)
(assert (= (str_len str_empty) 0))
(assert (= (bytes_len bytes_nil) 0))
`

type SolverResult struct {
	Status string // unsat sat unknown timeout error
	Solver string
	Ms     int64
	Out    string
}

type solverSpec struct {
	name string
	argv func(file string, timeoutS int) []string
}

var solvers = []solverSpec{
	{"z3-5.1.0", func(f string, t int) []string { return []string{"z3-new", fmt.Sprintf("-T:%d", t), f} }},
	{"cvc5-1.0", func(f string, t int) []string {
		return []string{"cvc5", "--incremental", fmt.Sprintf("--tlimit=%d", t*1000), f}
	}},
	{"z3-4.8.12", func(f string, t int) []string { return []string{"z3", fmt.Sprintf("-T:%d", t), f} }},
}

func runSolver(sp solverSpec, file string, timeoutS int) SolverResult {
	t0 := time.Now()
	ctx, cancel := context.WithTimeout(context.Background(), time.Duration(timeoutS+2)*time.Second)
	defer cancel()
	argv := sp.argv(file, timeoutS)
	cmd := exec.CommandContext(ctx, argv[0], argv[1:]...)
	var out bytes.Buffer
	cmd.Stdout = &out
	cmd.Stderr = &out
	_ = cmd.Run()
	ms := time.Since(t0).Milliseconds()
	o := out.String()
	first := strings.TrimSpace(strings.SplitN(o, "\n", 2)[0])
	st := "error"
	switch {
	case first == "unsat":
		st = "unsat"
	case first == "sat":
		st = "sat"
	case first == "unknown":
		st = "unknown"
	case first == "timeout" || strings.Contains(o, "timeout") || strings.Contains(o, "interrupted") || ctx.Err() != nil:
		st = "timeout"
	}
	return SolverResult{Status: st, Solver: sp.name, Ms: ms, Out: o}
}

var scriptCache sync.Map // hash -> SolverResult

func scriptHash(script string) string {
	h := sha256.Sum256([]byte(script))
	return hex.EncodeToString(h[:8])
}

// discharge runs the solvers on a script (negated goal): unsat = proved.
// Sequential portfolio: z3-new, cvc5, z3-old. In race mode all three run at once.
func discharge(script, outDir, name string, timeoutS int, race bool, retry bool) (SolverResult, string) {
	h := scriptHash(script)
	file := filepath.Join(outDir, sanitizeFile(name)+"-"+h+".smt2")
	if r, ok := scriptCache.Load(h); ok {
		return r.(SolverResult), file
	}
	_ = os.WriteFile(file, []byte(script), 0o644)
	var best SolverResult
	if race {
		ch := make(chan SolverResult, len(solvers))
		for _, sp := range solvers {
			go func(sp solverSpec) { ch <- runSolver(sp, file, timeoutS) }(sp)
		}
		for range solvers {
			r := <-ch
			if r.Status == "unsat" {
				best = r
				break
			}
			if best.Status == "" || (r.Status == "sat" && best.Status != "sat") {
				best = r
			}
		}
	} else {
		for i, sp := range solvers {
			t := timeoutS
			r := runSolver(sp, file, t)
			if r.Status == "unsat" {
				best = r
				break
			}
			if r.Status == "sat" && !strings.Contains(script, "forall") && !strings.Contains(script, "exists") {
				// quantifier-free sat is definitive
				best = r
				break
			}
			if i == 0 || (r.Status == "sat" && best.Status != "sat") {
				best = r
			}
		}
	}
	if retry && !race && best.Status != "unsat" && best.Status != "sat" && timeoutS <= 10 {
		// nothing decided within the quick budget (the machine may be loaded): one more attempt, all solvers at once
		// with a longer limit, before the obligation is reported as failed
		ch := make(chan SolverResult, len(solvers))
		for _, sp := range solvers {
			go func(sp solverSpec) { ch <- runSolver(sp, file, 3*timeoutS) }(sp)
		}
		for range solvers {
			r := <-ch
			if r.Status == "unsat" {
				best = r
				break
			}
		}
	}
	scriptCache.Store(h, best)
	return best, file
}

func sanitizeFile(s string) string {
	var b strings.Builder
	for _, c := range s {
		if (c >= 'a' && c <= 'z') || (c >= 'A' && c <= 'Z') || (c >= '0' && c <= '9') || c == '-' || c == '_' || c == '.' {
			b.WriteRune(c)
		} else {
			b.WriteRune('_')
		}
	}
	r := b.String()
	if len(r) > 120 {
		r = r[:120]
	}
	return r
}

// dischargeOne runs only the first solver with a short timeout (used for must-be-satisfiable checks).
func dischargeOne(script, outDir, name string, timeoutS int) (SolverResult, string) {
	h := scriptHash(script)
	file := filepath.Join(outDir, sanitizeFile(name)+"-"+h+".smt2")
	if r, ok := scriptCache.Load("one:" + h); ok {
		return r.(SolverResult), file
	}
	_ = os.WriteFile(file, []byte(script), 0o644)
	r := runSolver(solvers[0], file, timeoutS)
	scriptCache.Store("one:"+h, r)
	return r, file
}
