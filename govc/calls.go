package main

import (
	"os"
	"go/constant"
	"fmt"
	"go/token"
	"go/types"
	"math/big"
	"strings"

	"golang.org/x/tools/go/ssa"
)

type bigInt = big.Int

var bigOne = big.NewInt(1)

func isPow2(n *big.Int) bool {
	return n.Sign() > 0 && new(big.Int).And(n, new(big.Int).Sub(n, bigOne)).Sign() == 0
}

// pure prefixes: callees with no effect on modelled state (results unconstrained).
var purePrefixes = []string{
	modPath + "/common/log.", "(" + modPath + "/common/log.", "(*" + modPath + "/common/log.",
	modPath + "/common/tracer.", modPath + "/internal/metrics.", "(*" + modPath + "/internal/metrics.",
	"go.opentelemetry.io/", "(go.opentelemetry.io/", "(*go.opentelemetry.io/",
	"github.com/prometheus/", "(github.com/prometheus/", "(*github.com/prometheus/",
	"go.uber.org/zap", "(*go.uber.org/zap", "(go.uber.org/zap",
	"fmt.", "errors.", "strings.", "strconv.", "bytes.", "math.", "(time.", "time.", "(*time.", "context.", "(context.",
	"encoding/hex.", "encoding/binary.", "(encoding/binary.", "unicode", "path.", "path/filepath.", "(*strings.", "(*bytes.",
	"(" + modPath + "/internal/context.", modPath + "/internal/context.",
	"(github.com/jonboulle/clockwork.", "sort.Search", "slices.Contains", "slices.Index", "maps.Keys", "(reflect.", "reflect.",
	"crypto/sha256.", "(hash.", "(*crypto/sha256.", "golang.org/x/crypto/blake2b.", "encoding/json.Marshal", "(net/http.Header)", "net/http.Error",
	"(*sync.WaitGroup)", "(*sync/atomic.", "sync/atomic.", "(google.golang.org/grpc/", "google.golang.org/grpc/status.", "google.golang.org/grpc/codes.", "google.golang.org/grpc/peer.", "google.golang.org/grpc/metadata.",
	"(*google.golang.org/protobuf/types/known/timestamppb.Timestamp).AsTime", "google.golang.org/protobuf/types/known/timestamppb.",
	"os.Getenv", "(*math/big.", "(error).Error", "(*sync.Once).Do", modPath + "/internal/net.RemoteAddress", "(" + modPath + "/internal/net.Peer).", "(*" + modPath + "/common/key.Identity).Address", "(*" + modPath + "/common/key.Node).Address",
}

func (e *Engine) isPure(key string) bool {
	for _, p := range purePrefixes {
		if strings.HasPrefix(key, p) {
			return true
		}
	}
	for _, p := range e.cs.Pure {
		if strings.HasPrefix(key, p) {
			return true
		}
	}
	return false
}

type effect struct {
	kind string // pure keys all
	keys []string
}

func (e *Engine) calleeKey(cc *ssa.CallCommon) string {
	if cc.IsInvoke() {
		return cc.Method.FullName()
	}
	switch v := cc.Value.(type) {
	case *ssa.Function:
		return funcKey(v)
	case *ssa.MakeClosure:
		return funcKey(v.Fn.(*ssa.Function))
	case *ssa.Builtin:
		return "builtin:" + v.Name()
	case *ssa.UnOp:
		if fa, ok := v.X.(*ssa.FieldAddr); ok {
			stT := fa.X.Type().Underlying().(*types.Pointer).Elem()
			k, _ := e.fieldKey(stT, fa.Field)
			return "field:" + strings.TrimPrefix(k, "F:")
		}
		if g, ok := v.X.(*ssa.Global); ok {
			return "field:" + g.Pkg.Pkg.Path() + "." + g.Name() // package-level func variable
		}
	case *ssa.Field:
		k, _ := e.fieldKey(v.X.Type(), v.Field)
		return "field:" + strings.TrimPrefix(k, "F:")
	}
	return ""
}

// callEffect: static summary of what a call may modify (used to havoc loops).
func (e *Engine) callEffect(cc *ssa.CallCommon) effect {
	key := e.calleeKey(cc)
	if key == "" && !cc.IsInvoke() {
		// call through a func-typed parameter with a paramfunc contract
		if p, ok := cc.Value.(*ssa.Parameter); ok && p.Parent() != nil {
			if pk := "param:" + funcKey(p.Parent()) + "." + p.Name(); e.cs.Funcs[pk] != nil {
				key = pk
				if t := e.cs.Funcs[pk].SameAs; t != "" && e.cs.Funcs[t] != nil {
					key = t
				}
			}
		}
		// call through a captured func variable with a paramfunc contract
		if u, ok := cc.Value.(*ssa.UnOp); ok {
			if fv, ok2 := u.X.(*ssa.FreeVar); ok2 && fv.Parent() != nil {
				if pk := "param:" + funcKey(fv.Parent()) + "." + fv.Name(); e.cs.Funcs[pk] != nil {
					key = pk
					if t := e.cs.Funcs[pk].SameAs; t != "" && e.cs.Funcs[t] != nil {
						key = t
					}
				}
			}
		}
	}
	if strings.HasPrefix(key, "builtin:") {
		switch key {
		case "builtin:append":
			return effect{kind: "keys", keys: []string{"E:Int", "E:Bool", "E:Str", "E:Bytes", "E:Slice", "E:Iface", "E:Real"}}
		case "builtin:delete":
			if len(cc.Args) > 0 {
				if _, ok := cc.Args[0].Type().Underlying().(*types.Map); ok {
					dk, _, _, _, lk, _, _ := mapHeap(cc.Args[0].Type())
					return effect{kind: "keys", keys: []string{dk, lk}}
				}
			}
			return effect{kind: "all"}
		case "builtin:copy", "builtin:clear":
			return effect{kind: "all"}
		}
		return effect{kind: "pure"}
	}
	if strings.HasPrefix(key, "(*sync.Mutex)") || strings.HasPrefix(key, "(*sync.RWMutex)") {
		return effect{kind: "keys", keys: []string{"L:w", "L:r"}}
	}
	fcg, okg := e.cs.Funcs[key]
	if !okg {
		if g := stripTypeArgs(key); g != key {
			fcg, okg = e.cs.Funcs[g]
		}
	}
	if fc, ok := fcg, okg; ok {
		if !fc.HasMod && fc.Kind == "func" {
			return effect{kind: "all"}
		}
		var keys []string
		for _, m := range fc.Modifies {
			ks, all := e.modKeys(fc, m)
			if all {
				return effect{kind: "all"}
			}
			keys = append(keys, ks...)
		}
		if len(keys) == 0 {
			return effect{kind: "pure"}
		}
		return effect{kind: "keys", keys: keys}
	}
	if key != "" && e.isPure(key) {
		return effect{kind: "pure"}
	}
	if fn, ok := e.funcsByKey[key]; ok && e.inlinable(fn, 0) {
		// inlined callee: its own stores
		var keys []string
		vf := &VerifyFunc{eng: e}
		for _, b := range fn.Blocks {
			for _, in := range b.Instrs {
				switch x := in.(type) {
				case *ssa.Store:
					keys = append(keys, vf.storeKeys(x.Addr)...)
				case *ssa.MapUpdate:
					return effect{kind: "all"}
				case *ssa.Call, *ssa.Defer, *ssa.Go:
					ef := e.callEffect(in.(ssa.CallInstruction).Common())
					if ef.kind == "all" {
						return ef
					}
					keys = append(keys, ef.keys...)
				}
			}
		}
		if len(keys) == 0 {
			return effect{kind: "pure"}
		}
		return effect{kind: "keys", keys: keys}
	}
	return effect{kind: "all"}
}

// modKeys resolves a modifies location to heap keys (static, by types).
func (e *Engine) modKeys(fc *FuncContract, m ModLoc) (keys []string, all bool) {
	switch x := m.E.(type) {
	case EIdent:
		if x.Name == "everything" {
			return nil, true
		}
	case ECall:
		if g, ok := e.cs.Ghosts[x.Fun]; ok && g.Field {
			return []string{"G:" + x.Fun}, false
		}
		if x.Fun == "heap" && len(x.Args) == 1 {
			if s, ok := x.Args[0].(EStr); ok {
				return []string{s.V}, false
			}
		}
		if (x.Fun == "mapof" || x.Fun == "elems") && len(x.Args) == 1 {
			if t := e.staticType(fc, x.Args[0]); t != nil {
				if _, isMap := t.Underlying().(*types.Map); isMap && x.Fun == "mapof" {
					dk, _, vk, _, lk, _, _ := mapHeap(t)
					return []string{dk, vk, lk}, false
				}
				if sl, isSl := t.Underlying().(*types.Slice); isSl && x.Fun == "elems" {
					if es := sortOf(sl.Elem()); es != "" {
						return []string{"E:" + es}, false
					}
				}
			}
		}
	case ESel:
		if bt := e.staticType(fc, x.X); bt != nil {
			if p, ok := bt.Underlying().(*types.Pointer); ok {
				bt = p.Elem()
			}
			if st := structFields(bt); st != nil {
				for i := 0; i < st.NumFields(); i++ {
					if st.Field(i).Name() == x.Name {
						k, _ := e.fieldKey(bt, i)
						return []string{k}, false
					}
				}
			}
		}
		// fall back: over-approximate by field name
		var out []string
		e.mu.Lock()
		for k := range e.heapSorts {
			if strings.HasPrefix(k, "F:") && strings.HasSuffix(k, "."+x.Name) {
				out = append(out, k)
			}
		}
		e.mu.Unlock()
		if len(out) == 0 {
			return nil, true
		}
		return out, false
	}
	return nil, true
}

func (e *Engine) inlinable(fn *ssa.Function, depth int) bool {
	if fn == nil || len(fn.Blocks) == 0 || depth > 4 {
		return false
	}
	if fn.Pkg == nil || !strings.HasPrefix(fn.Pkg.Pkg.Path(), modPath) {
		return false
	}
	if _, has := e.cs.Funcs[funcKey(fn)]; has {
		return false
	}
	return e.smallEnough(fn)
}

// smallEnough: loop-free, no concurrency statements, at most 120 instructions in 24 blocks.
func (e *Engine) smallEnough(fn *ssa.Function) bool {
	if fn == nil || len(fn.Blocks) == 0 || fn.Pkg == nil || !strings.HasPrefix(fn.Pkg.Pkg.Path(), modPath) {
		return false
	}
	n := 0
	fi := e.info(fn)
	if len(fi.headers) > 0 {
		return false
	}
	for _, b := range fn.Blocks {
		n += len(b.Instrs)
		for _, in := range b.Instrs {
			switch in.(type) {
			case *ssa.Go, *ssa.Select, *ssa.Send:
				return false
			}
		}
	}
	return n <= 120 && len(fn.Blocks) <= 24
}

func (vf *VerifyFunc) evalCallArgs(st *State, fr *Frame, cc *ssa.CallCommon) ([]*Val, *Val) {
	var args []*Val
	var fnv *Val
	if cc.IsInvoke() {
		args = append(args, st.get(fr, cc.Value))
	} else {
		if _, isB := cc.Value.(*ssa.Builtin); !isB {
			fnv = st.get(fr, cc.Value)
		}
	}
	for _, a := range cc.Args {
		args = append(args, st.get(fr, a))
	}
	return args, fnv
}

// doCall performs a call. Returns (result, pushed): pushed means a callee frame was pushed for inlining.
func (vf *VerifyFunc) doCall(st *State, fr *Frame, in ssa.Instruction, cc *ssa.CallCommon, args []*Val, fnv *Val) (*Val, bool) {
	eng := vf.eng
	if fnv != nil && fnv.Fn != nil && fnv.Fn.Key == "ctxcancel" && fnv.Fn.Self != nil {
		// the cancel function of a context derived in this function: its context is done from now on
		if g, ok := eng.cs.Ghosts["ctxDone"]; ok && g.Field {
			k, as := "G:ctxDone", ghostFieldSort(g)
			st.heapSet(k, as, store(st.heapGet(k, as), "(i_val "+fnv.Fn.Self.Tm+")", "true"))
		}
		return nil, false
	}
	key := eng.calleeKey(cc)
	var static *ssa.Function
	var bindings []*Val
	if fnv != nil && fnv.Fn != nil {
		if key == "" || strings.HasPrefix(key, "field:") && fnv.Fn.Static != nil {
			key = fnv.Fn.Key
		}
		if f, ok := fnv.Fn.Static.(*ssa.Function); ok {
			static = f
			bindings = fnv.Fn.Bindings
		}
		if strings.HasPrefix(fnv.Fn.Key, "field:") && fnv.Fn.Self != nil && fnv.Fn.Static == nil {
			key = fnv.Fn.Key
		}
	}
	if f, ok := cc.Value.(*ssa.Function); ok && !cc.IsInvoke() {
		static = f
	}
	if p, ok := cc.Value.(*ssa.Parameter); ok && !cc.IsInvoke() && static == nil {
		if pk := "param:" + funcKey(fr.fn) + "." + p.Name(); eng.cs.Funcs[pk] != nil {
			key = pk
		}
	}
	// call through a captured func variable (closure free variable): contract given as paramfunc <closure>.<name>
	if u, ok := cc.Value.(*ssa.UnOp); ok && !cc.IsInvoke() && static == nil && (fnv == nil || fnv.Fn == nil) {
		if fv, ok2 := u.X.(*ssa.FreeVar); ok2 {
			if pk := "param:" + funcKey(fr.fn) + "." + fv.Name(); eng.cs.Funcs[pk] != nil {
				key = pk
			}
		}
	}
	var resT types.Type = cc.Signature().Results()
	mkres := func() *Val {
		rt := cc.Signature().Results()
		switch rt.Len() {
		case 0:
			return nil
		case 1:
			v := st.freshVal(rt.At(0).Type(), "ret_"+calleeShortName(cc))
			st.knowRef(v)
			return v
		}
		v := st.freshVal(rt, "ret_"+calleeShortName(cc))
		st.knowRef(v)
		return v
	}
	_ = resT
	label := eng.info(fr.fn).callOrd[in]
	top := len(st.frames) == 1
	if top && vf.fc != nil && vf.fc.Flags["interleaved"] && st.heldNow == 0 {
		// (while this goroutine holds a lock the relied-on state is taken to be protected by it: monitor discipline)
		// other goroutines run between any two steps of this function: what the rely clause names may change before
		// every call (calls are the only points at which this function observes or changes shared state)
		vf.yield(st)
	}

	// a callee that is not known to be effect-free may panic: in a handler whose panics are recovered by an interceptor
	// the unwinding runs this function's deferred calls; a deferred Unlock of a mutex that is not held at that moment is
	// a fatal runtime error ("unlock of unlocked mutex"), which the interceptor cannot contain
	if top && vf.fc != nil && vf.fc.Flags["recovered"] && vf.lockcheck && !(key != "" && eng.isPure(key)) && !strings.HasPrefix(key, "builtin:") && !strings.HasPrefix(key, "(*sync.") {
		vf.unwindCheck(st, fr, in, label)
		// ... and a mutex that is held here without a deferred unlock stays locked for good when the callee panics: the
		// interceptor reports the fault, every later request on that lock waits forever
		if g := st.locksCoveredByDefers(); g != "true" && vf.calleeMayPanic(st, fr, key, static) {
			st.check("lock", fmt.Sprintf("panic-in-callee-leaves-no-lock-held/%s#%d", label.name, label.ord), "C14",
				"if this call panics (the callee is not known to be panic-free) the interceptor contains it, but a mutex held here without a deferred unlock is never released", st.pos(in), g)
		}
	}

	// call-site assertions (before)
	if top && vf.fc != nil {
		for _, c := range vf.fc.Calls {
			if c.After || c.CallName != label.name || c.CallOrd != label.ord {
				continue
			}
			vf.usedCallClauses[c] = true
			env := vf.callEnv(st, fr, cc, args, nil)
			for gi, t := range vf.evalGoals(st, c, env, nil) {
				st.check("assert", splitLbl(lbl(c, fmt.Sprintf("%s#%d", label.name, label.ord)), c, gi), c.Prop, c.Src, st.pos(in), t)
			}
		}
	}
	after := func(res *Val, old map[string]string) {
		if top && vf.fc != nil {
			for _, c := range vf.fc.Calls {
				if !c.After || c.CallName != label.name || c.CallOrd != label.ord {
					continue
				}
				vf.usedCallClauses[c] = true
				env := vf.callEnv(st, fr, cc, args, res)
				for gi, t := range vf.evalGoals(st, c, env, old) {
					st.check("assert", splitLbl(lbl(c, fmt.Sprintf("%s#%d.after", label.name, label.ord)), c, gi), c.Prop, c.Src, st.pos(in), t)
				}
			}
		}
	}

	// builtins and hard-wired models
	if b, ok := cc.Value.(*ssa.Builtin); ok && !cc.IsInvoke() {
		return vf.builtin(st, fr, in, b.Name(), cc, args), false
	}
	if r, handled := vf.special(st, fr, in, key, cc, args); handled {
		after(r, nil)
		return r, false
	}
	// receiver nil check for invoke
	if cc.IsInvoke() && vf.nopanic {
		st.check("nopanic", "nil-iface-call@"+st.pos(in), "C14", "method call on nil interface", st.pos(in), not(eq(args[0].Tm, "iface_nil")))
	}
	// contract (generic instantiations share the contract of the generic function); a contract may be scoped to
	// the calling package (key@pkgpath), e.g. sort.Slice with the comparator used in that package
	fc := eng.cs.Funcs[key]
	if fr.fn.Pkg != nil {
		if sc, ok := eng.cs.Funcs[key+"@"+fr.fn.Pkg.Pkg.Path()]; ok {
			fc = sc
		}
	}
	if fc == nil {
		if g := stripTypeArgs(key); g != key {
			fc = eng.cs.Funcs[g]
		}
	}
	if fc != nil {
		if top {
			vf.checkCalleeLocks(st, in, static, args, label)
		}
		old := st.snapshot()
		res := vf.applyContract(st, fr, in, fc, cc, args, fnv, label)
		after(res, old)
		return res, false
	}
	if key != "" && eng.isPure(key) {
		r := mkres()
		after(r, nil)
		return r, false
	}
	if static != nil && static.Pkg != nil && strings.HasPrefix(static.Pkg.Pkg.Path(), modPath+"/protobuf/") && len(static.Blocks) == 0 {
		r := mkres() // generated protobuf accessor without a body in this load: no effect on modelled state
		after(r, nil)
		return r, false
	}
	// generated protobuf getter `if x != nil { return x.F }; return zero` (shape checked on the SSA body): one
	// conditional value instead of two paths
	if static != nil && len(args) == 1 {
		if fi, ok := eng.pbGetter(static); ok {
			recv := args[0]
			stT := static.Params[0].Type().Underlying().(*types.Pointer).Elem()
			key, ft := eng.fieldKey(stT, fi)
			if s := sortOf(ft); s != "" && structFields(ft) == nil {
				fa := &Val{T: types.NewPointer(ft), S: SInt, Tm: st.subObj(recv.Tm, key), A: &Addr{Kind: "field", Base: recv.Tm, Key: key, ElemT: ft}}
				lv := st.load(fa, ft)
				st.loadFacts(lv)
				zv := st.zeroVal(ft)
				if lv != nil && zv != nil && lv.S == zv.S && len(lv.Fs) == 0 {
					r := &Val{T: lv.T, S: lv.S, Tm: ite(not(eq(recv.Tm, "0")), lv.Tm, zv.Tm)}
					after(r, nil)
					return r, false
				}
			}
		}
	}
	// inline small repo functions without contracts
	if static != nil && eng.inlinable(static, len(st.frames)) && !vf.onStack(st, static) {
		nf := &Frame{fn: static, regs: map[ssa.Value]*Val{}, vars: map[string]*Val{}, block: static.Blocks[0], inlined: true}
		for i, p := range static.Params {
			if i < len(args) {
				nf.regs[p] = args[i]
				nf.vars[p.Name()] = args[i]
			}
		}
		for i, fv := range static.FreeVars {
			if i < len(bindings) {
				nf.regs[fv] = bindings[i]
			}
		}
		st.frames = append(st.frames, nf)
		return nil, true
	}
	// context.CancelFunc values only cancel a context
	if !cc.IsInvoke() {
		if n, ok := cc.Value.Type().(*types.Named); ok && n.Obj().Pkg() != nil && n.Obj().Pkg().Path() == "context" && n.Obj().Name() == "CancelFunc" {
			r := mkres()
			after(r, nil)
			return r, false
		}
	}
	if top {
		vf.checkCalleeLocks(st, in, static, args, label)
	}
	// unknown effects
	if key == "" {
		key = "dynamic call " + calleeShortName(cc)
	}
	st.havocAll("call to " + shortFuncName(key) + " (no contract)")
	r := mkres()
	after(r, nil)
	return r, false
}

func (vf *VerifyFunc) onStack(st *State, fn *ssa.Function) bool {
	for _, f := range st.frames {
		if f.fn == fn {
			return true
		}
	}
	return false
}

// callEnv: names visible to a call-site assertion: contract env, local variables, arg0.., result.
func (vf *VerifyFunc) callEnv(st *State, fr *Frame, cc *ssa.CallCommon, args []*Val, res *Val) map[string]*Val {
	env := vf.loopEnv(fr)
	for i, a := range args {
		env[fmt.Sprintf("arg%d", i)] = a
	}
	if res != nil {
		env["result"] = res
		for i, f := range res.Fs {
			env[fmt.Sprintf("result%d", i)] = f
		}
	}
	return env
}

func (vf *VerifyFunc) applyContract(st *State, fr *Frame, in ssa.Instruction, fc *FuncContract, cc *ssa.CallCommon, args []*Val, fnv *Val, label callLabel) *Val {
	return vf.applyContractSig(st, fr, in, fc, cc.Signature(), args, fnv, label, false)
}

// applyContractSig applies a contract at a call (or, with invoked set, at the one call a callee makes to a function
// value it was given: preconditions that mention the invoked function's own parameters are the callee's business and
// are assumed, the others are obligations of the call site).
func (vf *VerifyFunc) applyContractSig(st *State, fr *Frame, in ssa.Instruction, fc *FuncContract, sig *types.Signature, args []*Val, fnv *Val, label callLabel, invoked bool) *Val {
	if fc.SameAs != "" {
		if t := vf.eng.cs.Funcs[fc.SameAs]; t != nil {
			// the function value is (by the paramfunc declaration) the function t: use t's contract; preconditions of t
			// that mention t's own free variables are facts of the place where the closure was created, not of this call
			vf.eng.mu.Lock()
			vf.eng.usedContracts[fc.Key] = true
			vf.eng.mu.Unlock()
			cp := *t
			cp.Requires = nil
			names := map[string]bool{}
			for _, n := range t.Params {
				names[n] = true
			}
			for _, c := range t.Requires {
				ids := map[string]bool{}
				freeIdents(c.E, map[string]bool{}, ids)
				ok := true
				if fn := vf.eng.funcsByKey[t.Key]; fn != nil {
					for _, fv := range fn.FreeVars {
						if ids[fv.Name()] {
							ok = false
						}
					}
				}
				if ok {
					cp.Requires = append(cp.Requires, c)
				}
			}
			cp.SameAs = ""
			return vf.applyContractSig(st, fr, in, &cp, sig, args, fnv, label, invoked)
		}
	}
	vf.eng.mu.Lock()
	vf.eng.usedContracts[fc.Key] = true
	vf.eng.mu.Unlock()
	env := map[string]*Val{}
	all := args
	if fc.Kind == "field" && fnv != nil && fnv.Fn != nil && fnv.Fn.Self != nil {
		all = append([]*Val{fnv.Fn.Self}, args...)
	}
	if strings.HasPrefix(fc.Key, "param:") {
		// contract of a func-typed parameter: it may mention the enclosing function's parameters
		for k, v := range vf.env {
			env[k] = v
		}
	}
	for i, n := range fc.Params {
		if i < len(all) && n != "_" {
			env[n] = all[i]
		}
	}
	// a closure's free variables are visible in its contract under their source names
	if fnv != nil && fnv.Fn != nil {
		if sf, ok := fnv.Fn.Static.(*ssa.Function); ok {
			for i, fv := range sf.FreeVars {
				if i < len(fnv.Fn.Bindings) {
					env["&"+fv.Name()] = fnv.Fn.Bindings[i]
				}
			}
		}
	}
	vf.addPkgEnv(env, fc.PkgPath)
	for i, c := range fc.Requires {
		t := vf.evalClauseIn(st, c, env, nil, fc.PkgPath)
		if invoked {
			ids := map[string]bool{}
			freeIdents(c.E, map[string]bool{}, ids)
			own := false
			for _, n := range fc.Params {
				if ids[n] {
					own = true
				}
			}
			if own {
				st.assume(t)
				continue
			}
		}
		st.check("pre", fmt.Sprintf("%s#%d/%s", label.name, label.ord, lbl(c, fmt.Sprint(i))), c.Prop, c.Src, st.pos(in), t)
	}
	// a function-typed argument the callee invokes exactly once: its own contract describes that invocation
	if fc.Invokes != "" {
		var fa *Val
		for i, n := range fc.Params {
			if n == fc.Invokes && i < len(all) {
				fa = all[i]
			}
		}
		done := false
		if fa != nil && fa.Fn != nil {
			if sf, ok := fa.Fn.Static.(*ssa.Function); ok {
				if cfc := vf.eng.cs.Funcs[funcKey(sf)]; cfc != nil {
					var cargs []*Val
					for _, p := range sf.Params {
						v := st.freshVal(p.Type(), "inv_"+p.Name())
						st.knowRef(v)
						cargs = append(cargs, v)
					}
					r := vf.applyContractSig(st, fr, in, cfc, sf.Signature, cargs, fa, callLabel{name: label.name + ".invokes", ord: label.ord}, true)
					if r != nil {
						env["fnresult"] = r
					}
					done = true
				}
			}
		}
		if !done {
			st.havocAll("call to " + shortFuncName(fc.Key) + " invokes a function value without a contract")
		}
	}
	old := st.snapshot()
	// frame
	if !fc.HasMod {
		if fc.Kind == "func" {
			st.havocAll("call to " + shortFuncName(fc.Key) + " (contract without modifies clause)")
		}
	} else {
		for _, m := range fc.Modifies {
			vf.havocLoc(st, fc, m, env)
		}
	}
	// results
	rt := sig.Results()
	var res *Val
	switch rt.Len() {
	case 0:
	case 1:
		res = st.freshVal(rt.At(0).Type(), "ret_"+label.name)
		st.knowRef(res)
		if len(fc.Results) > 0 {
			env[fc.Results[0]] = res
		}
		env["result"] = res
	default:
		res = st.freshVal(rt, "ret_"+label.name)
		st.knowRef(res)
		for i, f := range res.Fs {
			if i < len(fc.Results) {
				env[fc.Results[i]] = f
			}
		}
	}
	for _, c := range fc.Ensures {
		if vf.eng.mentionsCalleeLocal(fc, c) {
			continue // a postcondition over the callee's own locals says nothing a caller can use
		}
		t := vf.evalClauseIn(st, c, env, old, fc.PkgPath)
		if os.Getenv("GOVC_DEBUG_ENSURES") != "" && invoked {
			fmt.Fprintf(os.Stderr, "DEBUG invoked ensures %s: %s => %s\n", fc.Key, c.Src, trunc(t, 300))
		}
		st.assume(t)
	}
	return res
}

var calleeLocalCache = map[*Clause]bool{}

// mentionsCalleeLocal: the clause names a local variable of the function the contract belongs to (not a parameter or
// result). Such clauses are obligations of the body only.
func (e *Engine) mentionsCalleeLocal(fc *FuncContract, c *Clause) bool {
	if fc.Kind != "func" {
		return false
	}
	e.mu.Lock()
	if v, ok := calleeLocalCache[c]; ok {
		e.mu.Unlock()
		return v
	}
	e.mu.Unlock()
	res := false
	if fn := e.funcsByKey[fc.Key]; fn != nil {
		ids := map[string]bool{}
		freeIdents(c.E, map[string]bool{}, ids)
		names := map[string]bool{"result": true}
		for _, n := range fc.Params {
			names[n] = true
		}
		for _, n := range fc.Results {
			names[n] = true
		}
		for id := range ids {
			if names[id] {
				continue
			}
			isParam := false
			for _, p := range fn.Params {
				if p.Name() == id {
					isParam = true
				}
			}
			for _, fv := range fn.FreeVars {
				if fv.Name() == id {
					isParam = true // captured variables are bound at the call through the closure value
				}
			}
			if !isParam && e.localType(fn, id) != nil {
				res = true
			}
		}
	}
	e.mu.Lock()
	calleeLocalCache[c] = res
	e.mu.Unlock()
	return res
}

// havocLoc havocs one modifies location, evaluated in the callee's environment.
func (vf *VerifyFunc) havocLoc(st *State, fc *FuncContract, m ModLoc, env map[string]*Val) {
	switch x := m.E.(type) {
	case EIdent:
		if x.Name == "everything" {
			st.havocAll("callee modifies everything: " + shortFuncName(fc.Key))
			return
		}
	case ESel:
		ev := &evaluator{st: st, vf: vf, env: env, pkgPath: fc.PkgPath}
		base := ev.eval(x.X)
		if base != nil && base.T != nil {
			if key, ft, ref, ok := ev.fieldLoc(base, x.Name); ok {
				s := sortOf(ft)
				if s != "" {
					as := heapSortFor(key, s)
					h := st.heapGet(key, as)
					nv := st.freshVal(ft, "mod_"+x.Name)
					st.heapSet(key, as, store(h, ref, nv.Tm))
					return
				}
			}
		}
	case ECall:
		if g, ok := vf.eng.cs.Ghosts[x.Fun]; ok && g.Field {
			key := "G:" + x.Fun
			as := ghostFieldSort(g)
			if len(x.Args) >= 1 {
				if id, isId := x.Args[0].(EIdent); isId && id.Name == "all" {
					st.eng.noteHeapSort(key, as)
					st.heapGet(key, as)
					st.havocKey(key)
					return
				}
				ev := &evaluator{st: st, vf: vf, env: env, pkgPath: fc.PkgPath}
				r := ev.eval(x.Args[0])
				ref := ev.toSort(r, specSort(g.Params[0]))
				h := st.heapGet(key, as)
				inner := ghostInnerSort(g)
				nv := st.fresh("modg_"+x.Fun, inner)
				st.heapSet(key, as, store(h, ref, nv))
				return
			}
		}
		if x.Fun == "heap" && len(x.Args) == 1 {
			if s, ok := x.Args[0].(EStr); ok {
				st.havocKey(s.V)
				return
			}
		}
		if x.Fun == "mapof" && len(x.Args) == 1 {
			ev := &evaluator{st: st, vf: vf, env: env, pkgPath: fc.PkgPath}
			r := ev.eval(x.Args[0])
			if r != nil && r.T != nil {
				if _, isMap := r.T.Underlying().(*types.Map); isMap {
					dk, das, vk, vas, lk, ks, vs := mapHeap(r.T)
					st.heapSet(dk, das, store(st.heapGet(dk, das), r.Tm, st.fresh("moddom", "(Array "+ks+" Bool)")))
					st.heapSet(vk, vas, store(st.heapGet(vk, vas), r.Tm, st.fresh("modval", "(Array "+ks+" "+vs+")")))
					nl := st.fresh("modlen", SInt)
					st.assume("(>= " + nl + " 0)")
					st.heapSet(lk, "(Array Int Int)", store(st.heapGet(lk, "(Array Int Int)"), r.Tm, nl))
					return
				}
			}
		}
		if x.Fun == "elems" && len(x.Args) == 1 {
			ev := &evaluator{st: st, vf: vf, env: env, pkgPath: fc.PkgPath}
			r := ev.eval(x.Args[0])
			if r != nil && r.S == SSlice {
				es := sortOf(r.T.Underlying().(*types.Slice).Elem())
				if es != "" {
					key := "E:" + es
					as := heapSortFor(key, es)
					h := st.heapGet(key, as)
					nv := st.fresh("modelems", "(Array Int "+es+")")
					st.heapSet(key, as, store(h, "(s_base "+r.Tm+")", nv))
					return
				}
			}
		}
	}
	st.note("modifies location " + m.Src + " not resolved: havoc-all")
	st.havocAll("unresolved modifies " + m.Src)
}

func ghostInnerSort(g *GhostFn) string {
	// ghostfield f(ref, K1, K2) R  ==> Array Int (Array K1 (Array K2 R))
	s := specSort(g.Result)
	for i := len(g.Params) - 1; i >= 1; i-- {
		s = "(Array " + specSort(g.Params[i]) + " " + s + ")"
	}
	return s
}
func ghostFieldSort(g *GhostFn) string {
	return "(Array " + specSort(g.Params[0]) + " " + ghostInnerSort(g) + ")"
}

// ---- builtins ---------------------------------------------------------

func (vf *VerifyFunc) builtin(st *State, fr *Frame, in ssa.Instruction, name string, cc *ssa.CallCommon, args []*Val) *Val {
	rt := cc.Signature().Results()
	switch name {
	case "len":
		a := args[0]
		switch a.S {
		case SStr:
			return intVal("(str_len " + a.Tm + ")")
		case SBytes:
			return intVal("(bytes_len " + a.Tm + ")")
		case SSlice:
			return intVal("(s_len " + a.Tm + ")")
		case SInt:
			switch a.T.Underlying().(type) {
			case *types.Map:
				dk, das, _, _, lk, ks, _ := mapHeap(a.T)
				l := sel(st.heapGet(lk, "(Array Int Int)"), a.Tm)
				st.assume("(>= " + l + " 0)")
				if ks != "" {
					// the length counts the keys: a present key means length >= 1 (and length 0 means no key)
					dom := st.fresh("dom", "(Array "+ks+" Bool)")
					st.assume(eq(dom, sel(st.heapGet(dk, das), a.Tm)))
					st.assume("(forall ((mk " + ks + ")) (! (=> (select " + dom + " mk) (>= " + l + " 1)) :pattern ((select " + dom + " mk))))")
				}
				return intVal(ite(eq(a.Tm, "0"), "0", l))
			case *types.Chan:
				r := st.fresh("chanlen", SInt)
				st.assume("(and (>= " + r + " 0) (<= " + r + " (chan_cap " + a.Tm + ")))")
				return intVal(r)
			case *types.Pointer:
				if arr, ok := a.T.Underlying().(*types.Pointer).Elem().Underlying().(*types.Array); ok {
					return intVal(fmt.Sprint(arr.Len()))
				}
			}
		case "":
			if arr, ok := a.T.Underlying().(*types.Array); ok {
				return intVal(fmt.Sprint(arr.Len()))
			}
		}
	case "cap":
		a := args[0]
		switch a.S {
		case SSlice:
			return intVal("(s_cap " + a.Tm + ")")
		case SBytes:
			r := st.fresh("cap", SInt)
			st.assume("(>= " + r + " (bytes_len " + a.Tm + "))")
			return intVal(r)
		case SInt:
			if _, ok := a.T.Underlying().(*types.Chan); ok {
				return intVal("(chan_cap " + a.Tm + ")")
			}
		}
	case "append":
		a, b := args[0], args[1]
		if a.S == SBytes {
			var other string
			switch b.S {
			case SBytes:
				other = b.Tm
			case SStr:
				other = "(bytes_of_str " + b.Tm + ")"
				st.assume(eq("(bytes_len "+other+")", "(str_len "+b.Tm+")"))
			case SSlice:
				other = st.fresh("appbytes", SBytes)
				st.assume(eq("(bytes_len "+other+")", "(s_len "+b.Tm+")"))
			default:
				other = st.fresh("appbytes", SBytes)
			}
			r := "(bytes_cat " + a.Tm + " " + other + ")"
			st.assume(eq("(bytes_len "+r+")", "(+ (bytes_len "+a.Tm+") (bytes_len "+other+"))"))
			return &Val{T: rt.At(0).Type(), S: SBytes, Tm: r}
		}
		if a.S == SSlice && b.S == SSlice {
			return vf.appendSlice(st, rt.At(0).Type(), a, b, st.appendInplace)
		}
	case "copy":
		if len(args) == 2 && args[0].S == SBytes && (args[1].S == SBytes || args[1].S == SStr) {
			src := args[1].Tm
			if args[1].S == SStr {
				src = "(bytes_of_str " + args[1].Tm + ")"
			}
			dst := args[0].Tm
			r := st.fresh("copied", SInt)
			st.assume("(>= " + r + " 0)")
			if strings.HasPrefix(dst, "mkbytes!") && !st.declSet["copied:"+dst] {
				// idiom x := make([]byte, len(src)); copy(x, src): the fresh buffer's content becomes src's content
				st.declSet["copied:"+dst] = true
				st.assume(implies(eq("(bytes_len "+dst+")", "(bytes_len "+src+")"), "(bytes_eq "+dst+" "+src+")"))
				return intVal(r)
			}
			// copy into a byte slice read from a memory location (copy(x.f, src)): that location now holds the
			// copied content; other aliases of the same backing array are not updated (abstraction, noted)
			if ld, ok := cc.Args[0].(*ssa.UnOp); ok && ld.Op == token.MUL {
				addr := st.get(fr, ld.X)
				nb := st.fresh("copydst", SBytes)
				st.assume(eq("(bytes_len "+nb+")", "(bytes_len "+dst+")"))
				st.assume(implies(eq("(bytes_len "+dst+")", "(bytes_len "+src+")"), "(bytes_eq "+nb+" "+src+")"))
				st.assume(implies(not(eq(dst, "bytes_nil")), not(eq(nb, "bytes_nil"))))
				st.storeTo(addr, &Val{T: args[0].T, S: SBytes, Tm: nb}, ld.Type())
				st.note("copy into a []byte held in memory: aliases of the backing array are not updated")
				return intVal(r)
			}
		}
		st.havocAll("builtin copy")
		r := st.fresh("copied", SInt)
		st.assume("(>= " + r + " 0)")
		return intVal(r)
	case "delete":
		if len(cc.Args) > 0 {
			vf.guardCheck(st, fr, cc.Args[0], true, in)
		}
		m, k := args[0], args[1]
		mt := m.T.Underlying().(*types.Map)
		ks := sortOf(mt.Key())
		if ks != "" {
			st.mapDelete(m.T, m.Tm, st.coerce(k, mt.Key()).Tm)
		}
		return nil
	case "close":
		cas := "(Array Int Bool)"
		ch := st.heapGet("CH:closed", cas)
		if vf.nopanic {
			st.check("nopanic", "close-nil@"+st.pos(in), "C14", "close of nil channel", st.pos(in), not(eq(args[0].Tm, "0")))
			st.check("nopanic", "close-closed@"+st.pos(in), "C14", "close of closed channel", st.pos(in), not(sel(ch, args[0].Tm)))
		}
		st.heapSet("CH:closed", cas, store(ch, args[0].Tm, "true"))
		return nil
	case "panic":
		if vf.nopanic {
			st.check("nopanic", "explicit-panic@"+st.pos(in), "C14", "panic reachable", st.pos(in), "false")
		}
		st.dead = true
		return nil
	case "recover":
		return &Val{T: rt.At(0).Type(), S: SIface, Tm: "iface_nil"}
	case "print", "println":
		return nil
	case "min", "max":
		if len(args) == 2 && args[0].S == SInt {
			op := "<="
			if name == "max" {
				op = ">="
			}
			return &Val{T: rt.At(0).Type(), S: SInt, Tm: "(ite (" + op + " " + args[0].Tm + " " + args[1].Tm + ") " + args[0].Tm + " " + args[1].Tm + ")"}
		}
	}
	st.note("builtin " + name + " abstracted")
	if rt.Len() == 0 {
		return nil
	}
	if rt.Len() == 1 {
		return st.freshVal(rt.At(0).Type(), name)
	}
	return st.freshVal(rt, name)
}

// appendSlice models append(a, b...) for non-byte slices on ONE of the two possible outcomes:
// inplace (capacity suffices: the result shares a's backing array) or reallocation (fresh backing holding a
// copy of a's elements). The interpreter forks the path on the two outcomes.
func (vf *VerifyFunc) appendSlice(st *State, t types.Type, a, b *Val, inplace bool) *Val {
	es := sortOf(t.Underlying().(*types.Slice).Elem())
	newLen := st.named(SInt, "applen", "(+ (s_len "+a.Tm+") (s_len "+b.Tm+"))")
	if inplace {
		st.assume("(<= " + newLen + " (s_cap " + a.Tm + "))")
	} else {
		st.assume(or("(> "+newLen+" (s_cap "+a.Tm+"))", eq("(s_len "+b.Tm+")", "0"), eq("(s_base "+a.Tm+")", "0"), "true"))
	}
	if es == "" {
		st.note("append on slice of composite elements abstracted")
		r := st.freshVal(t, "append")
		st.assume(eq("(s_len "+r.Tm+")", newLen))
		return r
	}
	key := "E:" + es
	as := heapSortFor(key, es)
	h := st.heapGet(key, as)
	var base, off, ncap string
	if inplace {
		base, off, ncap = "(s_base "+a.Tm+")", "(s_off "+a.Tm+")", "(s_cap "+a.Tm+")"
	} else {
		base = st.newRef("appbacking")
		off = "0"
		ncap = st.fresh("append_cap", SInt)
		st.assume("(and (>= " + ncap + " " + newLen + ") (<= " + ncap + " 9223372036854775807))")
	}
	res := "(mk_slice " + base + " " + off + " " + newLen + " " + ncap + ")"
	aArr := sel(h, "(s_base "+a.Tm+")")
	bArr := sel(h, "(s_base "+b.Tm+")")
	var cur string
	if inplace {
		cur = aArr
	} else {
		cur = st.fresh("append_arr", "(Array Int "+es+")")
		// the fresh backing holds a copy of a's elements
		st.assume("(forall ((i Int)) (! (=> (and (<= 0 i) (< i (s_len " + a.Tm + "))) (= (select " + cur + " (sidx 0 i)) (select " + aArr + " (sidx (s_off " + a.Tm + ") i)))) :pattern ((select " + cur + " (sidx 0 i)))))")
	}
	if n, ok := parseNum(strings.TrimSpace(sliceLenConst(b.Tm))); ok && n.IsInt64() && n.Int64() <= 4 {
		for j := int64(0); j < n.Int64(); j++ {
			cur = store(cur, "(sidx "+off+" (+ (s_len "+a.Tm+") "+fmt.Sprint(j)+"))", sel(bArr, "(sidx (s_off "+b.Tm+") "+fmt.Sprint(j)+")"))
		}
		st.heapSet(key, as, store(h, base, cur))
		return &Val{T: t, S: SSlice, Tm: res}
	}
	// symbolic number of appended elements: element j of b lands at position len(a)+j
	newArr := st.fresh("append_res", "(Array Int "+es+")")
	st.assume("(forall ((i Int)) (! (=> (and (<= 0 i) (< i (s_len " + a.Tm + "))) (= (select " + newArr + " (sidx " + off + " i)) (select " + cur + " (sidx " + off + " i)))) :pattern ((select " + newArr + " (sidx " + off + " i)))))")
	st.assume("(forall ((i Int)) (! (=> (and (<= 0 i) (< i (s_len " + b.Tm + "))) (= (select " + newArr + " (sidx " + off + " (+ (s_len " + a.Tm + ") i))) (select " + bArr + " (sidx (s_off " + b.Tm + ") i)))) :pattern ((select " + bArr + " (sidx (s_off " + b.Tm + ") i)))))")
	st.heapSet(key, as, store(h, base, newArr))
	return &Val{T: t, S: SSlice, Tm: res}
}

func sliceLenConst(tm string) string {
	// (mk_slice base off len cap) -> len when literal
	if strings.HasPrefix(tm, "(mk_slice ") {
		f := strings.Fields(strings.TrimSuffix(strings.TrimPrefix(tm, "(mk_slice "), ")"))
		if len(f) == 4 {
			return f[2]
		}
	}
	return "?"
}

// ---- hard-wired library models ---------------------------------------

func (vf *VerifyFunc) special(st *State, fr *Frame, in ssa.Instruction, key string, cc *ssa.CallCommon, args []*Val) (*Val, bool) {
	switch key {
	case "(*sync.Mutex).Lock", "(*sync.RWMutex).Lock":
		vf.lockOp(st, args[0], "lock", in)
		return nil, true
	case "(*sync.Mutex).Unlock", "(*sync.RWMutex).Unlock":
		vf.lockOp(st, args[0], "unlock", in)
		return nil, true
	case "(*sync.RWMutex).RLock":
		vf.lockOp(st, args[0], "rlock", in)
		return nil, true
	case "(*sync.RWMutex).RUnlock":
		vf.lockOp(st, args[0], "runlock", in)
		return nil, true
	case "(*sync.Mutex).TryLock", "(*sync.RWMutex).TryLock":
		return st.freshVal(types.Typ[types.Bool], "trylock"), true
	case "bytes.Equal":
		return boolVal("(bytes_eq " + args[0].Tm + " " + args[1].Tm + ")"), true
	case "errors.Is":
		return boolVal(or(eq(args[0].Tm, args[1].Tm), and(not(eq(args[0].Tm, "iface_nil")), "(wraps "+args[0].Tm+" "+args[1].Tm+")"))), true
	case "errors.New":
		r := st.freshVal(cc.Signature().Results().At(0).Type(), "err")
		st.assume(not(eq(r.Tm, "iface_nil")))
		st.freshErr(r)
		st.assume("(forall ((x Iface)) (! (not (wraps " + r.Tm + " x)) :pattern ((wraps " + r.Tm + " x))))")
		return r, true
	case "fmt.Errorf":
		r := st.freshVal(cc.Signature().Results().At(0).Type(), "err")
		st.assume(not(eq(r.Tm, "iface_nil")))
		st.freshErr(r)
		var wrapped []string
		// %w wrapping
		if c, ok := cc.Args[0].(*ssa.Const); ok && c.Value != nil && len(args) >= 2 && args[1].S == SSlice {
			format := constString(c)
			verbs := formatVerbs(format)
			h := st.heapGet("E:Iface", heapSortFor("E:Iface", SIface))
			for i, v := range verbs {
				if v == 'w' {
					elem := st.named(SIface, "wrapped", sel(sel(h, "(s_base "+args[1].Tm+")"), "(sidx (s_off "+args[1].Tm+") "+fmt.Sprint(i)+")"))
					wrapped = append(wrapped, elem)
				}
			}
		}
		// errors.Is semantics: the new error wraps exactly its %w operands (and what they wrap)
		var alts []string
		for _, w := range wrapped {
			alts = append(alts, and(not(eq(w, "iface_nil")), or(eq("x", w), "(wraps "+w+" x)")))
		}
		st.assume("(forall ((x Iface)) (! (= (wraps " + r.Tm + " x) " + or(alts...) + ") :pattern ((wraps " + r.Tm + " x))))")
		// what the message quotes (ghost `quotes(err, s)`, if declared): exactly its string operands and whatever
		// the errors it wraps quote
		if _, has := vf.eng.cs.Ghosts["quotes"]; has {
			if c, ok := cc.Args[0].(*ssa.Const); ok && c.Value != nil && len(args) >= 2 && args[1].S == SSlice {
				verbs := formatVerbs(constString(c))
				h := st.heapGet("E:Iface", heapSortFor("E:Iface", SIface))
				strTag := fmt.Sprint(vf.eng.typeTag(types.Typ[types.String]))
				var qalts []string
				for i, v := range verbs {
					if v == 'w' {
						continue
					}
					elem := st.named(SIface, "operand", sel(sel(h, "(s_base "+args[1].Tm+")"), "(sidx (s_off "+args[1].Tm+") "+fmt.Sprint(i)+")"))
					qalts = append(qalts, and(eq("(i_tag "+elem+")", strTag), eq("qs", "(unbox_Str (i_val "+elem+"))")))
				}
				for _, w := range wrapped {
					qalts = append(qalts, and(not(eq(w, "iface_nil")), "(g_quotes "+w+" qs)"))
				}
				st.assume("(forall ((qs Str)) (! (= (g_quotes " + r.Tm + " qs) " + or(qalts...) + ") :pattern ((g_quotes " + r.Tm + " qs))))")
			}
		}
		return r, true
	case "fmt.Sprintf":
		if c, ok := cc.Args[0].(*ssa.Const); ok && c.Value != nil && len(args) >= 2 && args[1].S == SSlice {
			format := constString(c)
			if _, has := vf.eng.cs.Ghosts["hexOf"]; has && format == "%x" {
				h := st.heapGet("E:Iface", heapSortFor("E:Iface", SIface))
				elem := sel(sel(h, "(s_base "+args[1].Tm+")"), "(sidx (s_off "+args[1].Tm+") 0)")
				// fmt %x of a byte slice: lower-case hex of its content (assumed; hexOf is injective on content)
				isBytes := or(eq("(i_tag "+elem+")", fmt.Sprint(vf.eng.typeTag(types.NewSlice(types.Universe.Lookup("byte").Type())))), eq("(i_tag "+elem+")", fmt.Sprint(vf.eng.typeTag(types.NewSlice(types.Typ[types.Uint8])))))
				r := st.freshVal(types.Typ[types.String], "sprintf")
				st.assume(implies(isBytes, eq(r.Tm, "(g_hexOf (unbox_Bytes (i_val "+elem+")))")))
				return r, true
			}
		}
		return nil, false
	case "math.Floor":
		return &Val{T: types.Typ[types.Float64], S: SReal, Tm: "(to_real (to_int " + args[0].Tm + "))"}, true
	case "(time.Duration).Seconds":
		// exact for whole seconds with |d| <= 2^53 ns... Duration.Seconds computes sec + nsec/1e9 in float64
		d := args[0].Tm
		secI := st.fresh("secs", SInt)
		st.assume(eq(secI, goDiv(d, "1000000000")))
		nsecI := st.fresh("nsecs", SInt)
		st.assume(eq(nsecI, "(- "+d+" (* 1000000000 "+secI+"))"))
		frac := st.flRound("(/ (to_real " + nsecI + ") 1000000000.0)")
		r := st.flRound("(+ (to_real " + secI + ") " + frac + ")")
		g := and(eq(nsecI, "0"), "(<= (- "+two53+") "+secI+")", "(<= "+secI+" "+two53+")")
		st.assume(implies(g, eq(r, "(to_real "+secI+")"))) // whole seconds: sec + 0/1e9 is exact
		return &Val{T: types.Typ[types.Float64], S: SReal, Tm: r, IntSrc: secI, IntGuard: g}, true
	}
	return nil, false
}

// freshErr: a newly created error is distinct from every error value known so far.
func (st *State) freshErr(r *Val) {
	for k, v := range st.heap {
		if strings.HasPrefix(k, "V:err:") {
			st.assume(not(eq(r.Tm, v)))
		}
	}
	st.freshErrs = append(st.freshErrs, r.Tm)
}

func constString(c *ssa.Const) string {
	s := c.Value.ExactString()
	if len(s) >= 2 && s[0] == '"' {
		var out string
		if _, err := fmt.Sscanf(s, "%q", &out); err == nil {
			return out
		}
	}
	return s
}

func formatVerbs(f string) []byte {
	var out []byte
	for i := 0; i < len(f); i++ {
		if f[i] != '%' {
			continue
		}
		i++
		for i < len(f) && strings.IndexByte("+-# 0123456789.[]*", f[i]) >= 0 {
			i++
		}
		if i < len(f) {
			if f[i] == '%' {
				continue
			}
			out = append(out, f[i])
		}
	}
	return out
}

// ---- locks -------------------------------------------------------------

func (vf *VerifyFunc) lockOp(st *State, m *Val, op string, in ssa.Instruction) {
	was := "(Array Int Bool)"
	ras := "(Array Int Int)"
	w := st.heapGet("L:w", was)
	r := st.heapGet("L:r", ras)
	a := m.Tm
	where := st.pos(in)
	chk := vf.lockcheck
	switch op {
	case "lock":
		if chk {
			st.check("lock", "no-reacquire@"+where, "C14", "Lock of a mutex this goroutine already holds (self-deadlock)", where, and(not(sel(w, a)), eq(sel(r, a), "0")))
		}
		st.heapSet("L:w", was, store(w, a, "true"))
		st.locked = append(st.locked, lockRec{a, where})
		st.heldNow++
		vf.monitorInv(st, a, false, in)
	case "unlock":
		vf.monitorInv(st, a, true, in)
		if chk {
			st.check("lock", "unlock-held@"+where, "C14", "Unlock of a mutex that is not held", where, sel(w, a))
		}
		st.heapSet("L:w", was, store(w, a, "false"))
		if st.heldNow > 0 {
			st.heldNow--
		}
	case "rlock":
		if chk {
			st.check("lock", "no-reacquire@"+where, "C14", "RLock while holding the write lock (self-deadlock)", where, not(sel(w, a)))
		}
		st.heapSet("L:r", ras, store(r, a, "(+ "+sel(r, a)+" 1)"))
		st.locked = append(st.locked, lockRec{a, where})
		st.heldNow++
		vf.monitorInv(st, a, false, in)
	case "runlock":
		if chk {
			st.check("lock", "runlock-held@"+where, "C14", "RUnlock without RLock", where, "(> "+sel(r, a)+" 0)")
		}
		st.heapSet("L:r", ras, store(r, a, "(- "+sel(r, a)+" 1)"))
		if st.heldNow > 0 {
			st.heldNow--
		}
	}
}

// unwindCheck simulates the deferred calls of the top frame in the order a panic would run them (last registered first)
// and requires every deferred Unlock / RUnlock to find its mutex held.
func (vf *VerifyFunc) unwindCheck(st *State, fr *Frame, in ssa.Instruction, label callLabel) {
	if len(fr.defers) == 0 {
		return
	}
	w := st.heapGet("L:w", "(Array Int Bool)")
	r := st.heapGet("L:r", "(Array Int Int)")
	wHeld := map[string]string{} // mutex term -> symbolic "write-held" after the defers simulated so far
	rCnt := map[string]string{}
	getW := func(a string) string {
		if v, ok := wHeld[a]; ok {
			return v
		}
		return sel(w, a)
	}
	getR := func(a string) string {
		if v, ok := rCnt[a]; ok {
			return v
		}
		return sel(r, a)
	}
	var goals []string
	for i := len(fr.defers) - 1; i >= 0; i-- {
		d := fr.defers[i]
		if d.call.Call.IsInvoke() || len(d.args) == 0 {
			continue
		}
		fn, ok := d.call.Call.Value.(*ssa.Function)
		if !ok {
			continue
		}
		a := d.args[0].Tm
		switch fn.String() {
		case "(*sync.Mutex).Lock", "(*sync.RWMutex).Lock":
			wHeld[a] = "true"
		case "(*sync.Mutex).Unlock", "(*sync.RWMutex).Unlock":
			goals = append(goals, getW(a))
			wHeld[a] = "false"
		case "(*sync.RWMutex).RLock":
			rCnt[a] = "(+ " + getR(a) + " 1)"
		case "(*sync.RWMutex).RUnlock":
			goals = append(goals, "(> "+getR(a)+" 0)")
			rCnt[a] = "(- " + getR(a) + " 1)"
		}
	}
	if len(goals) == 0 {
		return
	}
	st.check("lock", fmt.Sprintf("panic-unwind-unlocks-only-held-mutexes/%s#%d", label.name, label.ord), "C14",
		"if this call panics, the deferred unlocks run while unwinding: each must find its mutex held (an unlock of an unlocked mutex is a fatal error no interceptor contains)", st.pos(in), and(goals...))
}

// monitorInv: monitor invariants of the function under contract. After acquiring the mutex the invariant is assumed
// (whoever released it last established it); before releasing the write lock it is an obligation.
func (vf *VerifyFunc) monitorInv(st *State, mutexAddr string, release bool, in ssa.Instruction) {
	if vf.fc == nil || len(st.frames) != 1 || len(vf.fc.Monitors) == 0 {
		return
	}
	fr := st.frames[0]
	for _, c := range vf.fc.Monitors {
		env := vf.loopEnv(fr)
		ev := &evaluator{st: st, vf: vf, env: env, pkgPath: vf.fc.PkgPath}
		// the mutex expression may be rooted in a local that has no value yet
		ids := map[string]bool{}
		freeIdents(c.Aux, map[string]bool{}, ids)
		missing := false
		for id := range ids {
			if _, ok := env[id]; !ok {
				if _, ok2 := env["&"+id]; !ok2 {
					missing = true
				}
			}
		}
		if missing {
			continue
		}
		mv := ev.eval(c.Aux)
		if len(ev.err) > 0 || mv == nil {
			continue
		}
		ma := ev.addrOf(mv)
		t := vf.evalClause(st, c, env, nil)
		same := eq(mutexAddr, ma)
		if release {
			l := c.Label
			if l == "" {
				l = c.CallName
			}
			cl := vf.eng.info(fr.fn).callOrd[in]
			st.check("monitor", fmt.Sprintf("%s/%s#%d", l, cl.name, cl.ord), c.Prop, "monitor invariant of "+c.CallName+" holds when the lock is released: "+c.Src, st.pos(in), "(=> "+same+" "+t+")")
		} else {
			st.assume("(=> " + same + " " + t + ")")
		}
	}
}

func splitLbl(l string, c *Clause, i int) string {
	if sp, ok := c.E.(ESplit); ok {
		return fmt.Sprintf("%s[%s=%d]", l, sp.Var, sp.Lo+i)
	}
	return l
}

// stripTypeArgs removes generic instantiation brackets: pkg.F[T] -> pkg.F, (*pkg.G[T]).M -> (*pkg.G).M
func stripTypeArgs(k string) string {
	var b strings.Builder
	depth := 0
	for i := 0; i < len(k); i++ {
		c := k[i]
		if c == '[' {
			// "[]" (slice types) only occurs inside type arguments; outermost '[' after an identifier starts type args
			depth++
			continue
		}
		if c == ']' {
			depth--
			continue
		}
		if depth == 0 {
			b.WriteByte(c)
		}
	}
	return b.String()
}

// staticType computes the Go type of a parameter / field-selection chain in a contract, from the signature
// of the function the contract is attached to (no symbolic state needed).
func (e *Engine) staticType(fc *FuncContract, x Expr) types.Type {
	switch v := x.(type) {
	case EIdent:
		fn := e.funcsByKey[fc.Key]
		var sig *types.Signature
		if fn != nil {
			sig = fn.Signature
		}
		if sig == nil {
			return nil
		}
		var ts []types.Type
		if sig.Recv() != nil {
			ts = append(ts, sig.Recv().Type())
		}
		for i := 0; i < sig.Params().Len(); i++ {
			ts = append(ts, sig.Params().At(i).Type())
		}
		for i, n := range fc.Params {
			if n == v.Name && i < len(ts) {
				return ts[i]
			}
		}
	case ESel:
		bt := e.staticType(fc, v.X)
		if bt == nil {
			return nil
		}
		if p, ok := bt.Underlying().(*types.Pointer); ok {
			bt = p.Elem()
		}
		var pkg *types.Package
		if n, ok := bt.(*types.Named); ok {
			pkg = n.Obj().Pkg()
		}
		obj, _, _ := types.LookupFieldOrMethod(bt, true, pkg, v.Name)
		if f, ok := obj.(*types.Var); ok {
			return f.Type()
		}
	}
	return nil
}

// goSite: `go f(args)` — precondition obligations of f (if it has a contract) at the spawn site.
func (vf *VerifyFunc) goSite(st *State, fr *Frame, g *ssa.Go) {
	if len(st.frames) != 1 {
		return
	}
	if vf.fc != nil && vf.fc.Flags["sequential"] {
		// a function declared sequential does its work itself, in program order: handing it to a new goroutine
		// gives up the order (used for the per-consumer dispatch worker, C11)
		lab := vf.eng.info(fr.fn).callOrd[g]
		st.check("sequential", fmt.Sprintf("go %s#%d", lab.name, lab.ord), "C11", "work is started on a new goroutine inside a function declared sequential: the order of its effects is no longer the program order", st.pos(g), "false")
	}
	cc := &g.Call
	args, fnv := vf.evalCallArgs(st, fr, cc)
	key := vf.eng.calleeKey(cc)
	var bindings []*Val
	if fnv != nil && fnv.Fn != nil {
		if key == "" {
			key = fnv.Fn.Key
		}
		bindings = fnv.Fn.Bindings
	}
	fc := vf.eng.cs.Funcs[key]
	if fc == nil {
		return
	}
	label := vf.eng.info(fr.fn).callOrd[g]
	env := map[string]*Val{}
	for i, n := range fc.Params {
		if i < len(args) && n != "_" {
			env[n] = args[i]
		}
	}
	// free variables of a closure are visible in its contract under their source names
	if fn := vf.eng.funcsByKey[key]; fn != nil {
		for i, fv := range fn.FreeVars {
			if i < len(bindings) {
				env["&"+fv.Name()] = bindings[i]
			}
		}
	}
	for i, c := range fc.Requires {
		t := vf.evalClauseIn(st, c, env, nil, fc.PkgPath)
		st.check("pre", fmt.Sprintf("go %s#%d/%s", label.name, label.ord, lbl(c, fmt.Sprint(i))), c.Prop, c.Src, st.pos(g), t)
	}
}

var pbGetterCache = map[*ssa.Function]int{}

// pbGetter recognises the protobuf accessor shape on the SSA body of fn:
//   b0: if x != nil goto b1 else b2;  b1: return *(&x.F);  b2: return <zero constant>
// and returns the field index of F. Anything else is not a getter (it is inlined or havocs as usual).
func (e *Engine) pbGetter(fn *ssa.Function) (int, bool) {
	e.mu.Lock()
	defer e.mu.Unlock()
	if v, ok := pbGetterCache[fn]; ok {
		return v, v >= 0
	}
	res := -1
	defer func() { pbGetterCache[fn] = res }()
	if fn.Pkg == nil || !strings.HasPrefix(fn.Pkg.Pkg.Path(), modPath+"/protobuf/") || !strings.HasPrefix(fn.Name(), "Get") {
		return -1, false
	}
	if len(fn.Params) != 1 || len(fn.Blocks) != 3 || fn.Signature.Results().Len() != 1 {
		return -1, false
	}
	if _, ok := fn.Params[0].Type().Underlying().(*types.Pointer); !ok {
		return -1, false
	}
	real := func(b *ssa.BasicBlock) []ssa.Instruction {
		var out []ssa.Instruction
		for _, in := range b.Instrs {
			if _, ok := in.(*ssa.DebugRef); ok {
				continue
			}
			out = append(out, in)
		}
		return out
	}
	b0 := real(fn.Blocks[0])
	if len(b0) != 2 {
		return -1, false
	}
	cmp, ok := b0[0].(*ssa.BinOp)
	iff, ok2 := b0[1].(*ssa.If)
	if !ok || !ok2 || cmp.Op != token.NEQ || cmp.X != ssa.Value(fn.Params[0]) || iff.Cond != ssa.Value(cmp) {
		return -1, false
	}
	if c, ok := cmp.Y.(*ssa.Const); !ok || !c.IsNil() {
		return -1, false
	}
	bt, bf := fn.Blocks[0].Succs[0], fn.Blocks[0].Succs[1]
	it := real(bt)
	if len(it) != 3 {
		return -1, false
	}
	fa, ok := it[0].(*ssa.FieldAddr)
	ld, ok2 := it[1].(*ssa.UnOp)
	rt, ok3 := it[2].(*ssa.Return)
	if !ok || !ok2 || !ok3 || fa.X != ssa.Value(fn.Params[0]) || ld.Op != token.MUL || ld.X != ssa.Value(fa) || len(rt.Results) != 1 || rt.Results[0] != ssa.Value(ld) {
		return -1, false
	}
	iz := real(bf)
	if len(iz) != 1 {
		return -1, false
	}
	rz, ok := iz[0].(*ssa.Return)
	if !ok || len(rz.Results) != 1 {
		return -1, false
	}
	c, ok := rz.Results[0].(*ssa.Const)
	if !ok {
		return -1, false
	}
	if c.Value != nil {
		// zero constant: "" / 0 / false
		switch c.Value.Kind() {
		case constant.String:
			if constant.StringVal(c.Value) != "" {
				return -1, false
			}
		case constant.Int, constant.Float:
			if constant.Sign(c.Value) != 0 {
				return -1, false
			}
		case constant.Bool:
			if constant.BoolVal(c.Value) {
				return -1, false
			}
		default:
			return -1, false
		}
	}
	res = fa.Field
	return res, true
}

// calleeMayPanic: false for callees whose panic points are checked elsewhere or that have none: helpers that are inlined
// (their panic points become obligations of the caller), generated protobuf accessors, and functions under a contract
// that is itself verified panic-free without relying on a recovery interceptor.
func (vf *VerifyFunc) calleeMayPanic(st *State, fr *Frame, key string, static *ssa.Function) bool {
	eng := vf.eng
	fc := eng.cs.Funcs[key]
	if fr.fn.Pkg != nil {
		if sc, ok := eng.cs.Funcs[key+"@"+fr.fn.Pkg.Pkg.Path()]; ok {
			fc = sc
		}
	}
	if fc == nil {
		if g := stripTypeArgs(key); g != key {
			fc = eng.cs.Funcs[g]
		}
	}
	if fc != nil {
		return !(fc.Kind == "func" && fc.Flags["nopanic"] && !fc.Flags["recovered"])
	}
	if static == nil {
		return true
	}
	if static.Pkg != nil && strings.HasPrefix(static.Pkg.Pkg.Path(), modPath+"/protobuf/") && len(static.Blocks) == 0 {
		return false
	}
	if _, ok := eng.pbGetter(static); ok {
		return false
	}
	if eng.inlinable(static, len(st.frames)) && !vf.onStack(st, static) {
		return false
	}
	return true
}
