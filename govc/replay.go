package main

import (
	"context"
	"encoding/json"
	"fmt"
	"os"
	"os/exec"
	"path/filepath"
	"regexp"
	"strings"
	"time"
)

// tryReplay turns a solver model into an input for the real code (per-property adapters).
// Returns true when the violation was reproduced on the real code.
func tryReplay(eng *Engine, prop string, a *obAgg, f *Oblig, replay map[string]any) bool {
	if ad, ok := replayAdapters[prop]; ok {
		return ad(eng, a, f, replay)
	}
	replay["replay"] = "no replay adapter for this obligation: the violation is reported on the strength of the failed obligation alone"
	return false
}

var replayAdapters = map[string]func(eng *Engine, a *obAgg, f *Oblig, replay map[string]any) bool{
	"C16": replayC16,
	"C10": replayTemplates,
	"C04": replayTemplates,
	"C07": replayTemplates,
	"C08": replayTemplates,
	"C09": replayTemplates,
	"C13": replayTemplates,
	"C01": replayTemplates,
	"C02": replayTemplates,
	"C12": replayTemplates,
	"C14": replayTemplates,
	"C18": replayTemplates,
	"C15": replayTemplates,
	"C20": replayTemplates,
}

// fixedReplays: obligations whose counterexample is schedule/sequence shaped (not a function input): a hand-written
// adapter drives the real code through the scenario the failed obligation describes.
var fixedReplays = map[string]struct{ tmpl, pkg, run string }{
	"(*callbackStore).AddCallback/nonblock/send#0": {"C12_addcallback_blocks_test.go.tmpl", "internal/chain/beacon", "TestVerifReplayC12AddCallbackBlocks"},
	"shouldUseTrimmedBolt$2/pre/Cursor#0/0": {"C13_db_without_bucket_test.go.tmpl", "internal/chain/boltdb", "TestVerifReplayC13DBWithoutBucket"},
	"(*BeaconProcess).StartFollowChain/pre/go StartFollowChain$2#0/the-attempt-result-channel-exists": {"C10_follow_retry_test.go.tmpl", "internal/core", "TestVerifReplayC10FollowRetriesAfterFailedAttempt"},
	"(*memDBCursor).Seek/post/mem-seek-reports-nothing-stored-only-when-nothing-is-stored-at-or-after-the-round": {"C11_memdb_seek_absent_round_test.go.tmpl", "internal/chain/beacon", "TestVerifReplayC11MemDBSeekAbsentRound"},
	"(*memDBCursor).Next/post/mem-cursor-next-is-the-successor-of-the-round-it-stood-on": {"C11_memdb_cursor_trim_test.go.tmpl", "internal/chain/beacon", "TestVerifReplayC11MemDBCursorTrim"},
	"(*DrandHandler).ChainHashes/guarded/beacons-read": {"C14_http_chain_table_race_test.go.tmpl", "handler/http", "race:TestVerifReplayC14HTTPChainTableRace"},
	"(*DrandDaemon).Packet/guarded/beaconProcesses-read":       {"C14_daemon_table_race_test.go.tmpl", "internal/core", "race:TestVerifReplayC14DaemonTableRace"},
	"(*DrandDaemon).BroadcastDKG/guarded/beaconProcesses-read": {"C14_daemon_table_race_test.go.tmpl", "internal/core", "race:TestVerifReplayC14DaemonTableRace"},
	"(*DrandDaemon).DKGStatus/guarded/beaconProcesses-read":    {"C14_daemon_table_race_test.go.tmpl", "internal/core", "race:TestVerifReplayC14DaemonTableRace"},
	"(*DrandDaemon).KeypairFor/guarded/beaconProcesses-read":   {"C14_daemon_table_race_test.go.tmpl", "internal/core", "race:TestVerifReplayC14DaemonTableRace"},
	"ValidateProposal/pre/validateReshareForRemainers#0/0": {"C08_left_node_reproposed_test.go.tmpl", "internal/dkg", "TestVerifReplayLeftNodeReproposed"},
	"(*DrandHandler).watchWithTimeout/monitor/requests-wait-only-while-the-next-round-is-known/Unlock#0": {"C01_http_waiter_after_stream_reset_test.go.tmpl", "handler/http", "TestVerifReplayC01HTTPWaiterAfterStreamReset"},
	"SyncChain/assert/no-stored-round-is-skipped-between-catch-up-and-live-delivery": {"C11_handover_gap_test.go.tmpl", "internal/chain/beacon", "TestVerifReplayC11HandoverGap"},
	"(*BeaconProcess).storeDKGOutput/assert/a-crash-between-the-two-writes-leaves-group-and-share-of-one-epoch": {"C13_group_share_torn_test.go.tmpl", "internal/core", "TestVerifReplayC13GroupShareTorn"},
	"Save/assert/a-crash-while-saving-leaves-the-previous-file-intact": {"C13_save_crash_test.go.tmpl", "common/key", "TestVerifReplayC13SaveCrash"},
	"messageForSigning/post/signed-message-covers-the-genesis-seed":          {"C09_dkg_auth_test.go.tmpl", "internal/dkg", "TestVerifReplayC09GenesisSeedNotSigned"},
	"messageForSigning/post/signed-message-covers-every-participant-key":     {"C09_dkg_auth_test.go.tmpl", "internal/dkg", "TestVerifReplayC09ParticipantKeyNotSigned"},
	"validateReshareForRemainers/post/remaining-and-leaving-members-carry-the-keys-recorded-in-the-current-group": {"C09_dkg_auth_test.go.tmpl", "internal/dkg", "TestVerifReplayC09OutsiderProposesAsLeader"},
	"GroupFromProto/post/decoded-group-packet-threshold-is-at-most-the-node-count": {"C20_group_packet_threshold_test.go.tmpl", "common/key", "TestVerifReplayC20GroupPacketThreshold"},
	"NewDKGStore/assert/dkg-database-is-created-owner-only": {"C15_dkgdb_mode_test.go.tmpl", "internal/dkg", "TestVerifReplayC15DKGDBMode"},
	"(*trimmedBoltCursor).Seek/post/trimmed-seek-never-mislabels": {"C18_trimmed_seek_test.go.tmpl", "internal/chain/boltdb", "TestVerifReplayC18TrimmedSeek"},
	"(*Handler).run$1/pre/broadcastNextPartial#0/partial-built-on-a-head-not-ahead-of-the-ticked-round": {"C04_head_ahead_of_clock_test.go.tmpl", "internal/chain/beacon", "TestVerifReplayC04HeadAheadOfClock"},
	"(*Handler).broadcastNextPartial/assert/signed-round-not-beyond-the-ticked-round":                   {"C04_head_ahead_of_clock_test.go.tmpl", "internal/chain/beacon", "TestVerifReplayC04HeadAheadOfClock"},
	"(*Process).Packet/lock/callee-acquires-lock-held-by-caller/BroadcastDKG#0": {"C14_packet_deadlock_test.go.tmpl", "internal/dkg", "TestVerifReplayC14PacketDeadlock"},
	"(*callbackStore).Put/nonblock/send#0": {"C12_put_blocks_test.go.tmpl", "internal/chain/beacon", "TestVerifReplayC12PutBlocks"},
	"(*partialCache).Append/post/append-keeps-per-signer-bound": {"C12_cache_bound_test.go.tmpl", "internal/chain/beacon", "TestVerifReplayC12CacheBound"},
	"(*SyncManager).tryNode/assert/resync-writes-only-the-requested-rounds": {"C10_resync_window_test.go.tmpl", "internal/chain/beacon", "TestVerifReplayC10ResyncWindow"},
}

func replayTemplates(eng *Engine, a *obAgg, f *Oblig, replay map[string]any) bool {
	fr, ok := fixedReplays[a.Name]
	if !ok {
		for k, v := range fixedReplays {
			if strings.HasPrefix(a.Name, k+"@") {
				fr, ok = v, true
			}
		}
	}
	if !ok {
		replay["replay"] = "no replay adapter for this obligation: the violation is reported on the strength of the failed obligation alone"
		return false
	}
	tb, err := os.ReadFile(filepath.Join(eng.verifDir, "replay", fr.tmpl))
	if err != nil {
		replay["replay"] = "adapter template missing: " + fr.tmpl
		return false
	}
	src := strings.ReplaceAll(string(tb), "{{ROUND}}", "7")
	failed, out := runOverlayTest(eng, fr.pkg, "zz_verif_replay_test.go", src, fr.run)
	replay["replay_output"] = trunc2(out, 4000)
	replay["replay_cmd"] = "cd /repo && go test -overlay /verif/out/replay/overlay/overlay.json -vet=off -count=1 -run " + fr.run + " -v ./" + fr.pkg + "/"
	if failed {
		replay["replay"] = "reproduced on the real code by the scenario adapter " + fr.tmpl
		return true
	}
	replay["replay"] = "scenario adapter did not reproduce the violation on the real code"
	return false
}

var _ = fmt.Sprint

var unusedReplay = map[string]int{
}

var reModelInt = regexp.MustCompile(`\(define-fun \|?([^\s|]+)\|? \(\) Int\s+(\(- (\d+)\)|\d+)\)`)

// modelInts extracts integer constants from a z3/cvc5 model.
func modelInts(out string) map[string]string {
	m := map[string]string{}
	for _, x := range reModelInt.FindAllStringSubmatch(out, -1) {
		v := x[2]
		if x[3] != "" {
			v = "-" + x[3]
		}
		m[x[1]] = v
	}
	return m
}

// paramModel maps parameter names to model values (constants named p_<name>!k).
func paramModel(out string) map[string]string {
	pm := map[string]string{}
	for k, v := range modelInts(out) {
		if strings.HasPrefix(k, "p_") {
			n := strings.TrimPrefix(k, "p_")
			if i := strings.Index(n, "!"); i >= 0 {
				n = n[:i]
			}
			pm[n] = v
		}
	}
	return pm
}

// runOverlayTest injects a test file into a package of /repo through -overlay and runs it with the
// repository's own toolchain. Returns (failed, output).
func runOverlayTest(eng *Engine, pkgRel, fileName, content, runPat string) (bool, string) {
	dir := filepath.Join(outBase(eng.verifDir), "replay", "overlay")
	os.MkdirAll(dir, 0o755)
	src := filepath.Join(dir, fileName)
	os.WriteFile(src, []byte(content), 0o644)
	ov := map[string]any{"Replace": map[string]string{filepath.Join(eng.repo, pkgRel, fileName): src}}
	b, _ := json.Marshal(ov)
	ovf := filepath.Join(dir, "overlay.json")
	os.WriteFile(ovf, b, 0o644)
	budget, extra := 240*time.Second, []string{}
	if strings.HasPrefix(runPat, "race:") {
		// schedule-dependent replays run under the race detector, which reports the unsynchronised access deterministically
		runPat = strings.TrimPrefix(runPat, "race:")
		budget, extra = 900*time.Second, []string{"-race"}
	}
	ctx, cancel := context.WithTimeout(context.Background(), budget)
	defer cancel()
	args := append([]string{"test", "-overlay", ovf, "-vet=off", "-count=1", "-timeout", "120s"}, extra...)
	args = append(args, "-run", runPat, "-v", "./"+pkgRel+"/")
	cmd := exec.CommandContext(ctx, "go", args...)
	cmd.Dir = eng.repo
	env := []string{}
	for _, e := range os.Environ() {
		if strings.HasPrefix(e, "GOTOOLCHAIN=") || strings.HasPrefix(e, "GOSUMDB=") || strings.HasPrefix(e, "GOFLAGS=") || strings.HasPrefix(e, "PATH=") {
			continue
		}
		env = append(env, e)
	}
	// default toolchain first on PATH (not go1.26.8): replays use the repository's own toolchain
	path := strings.ReplaceAll(os.Getenv("PATH"), "/opt/veriftools/go1.26.8/bin:", "")
	env = append(env, "PATH="+path, "GOFLAGS=-mod=mod", "GOPROXY=off")
	cmd.Env = env
	out, err := cmd.CombinedOutput()
	return err != nil && (strings.Contains(string(out), "--- FAIL") || strings.Contains(string(out), "fatal error: concurrent map")), string(out)
}

func replayC16(eng *Engine, a *obAgg, f *Oblig, replay map[string]any) bool {
	pm := paramModel(f.Res.Out)
	if f.Res.Status != "sat" || len(pm) == 0 {
		replay["replay"] = "solver gave no model (status " + f.Res.Status + ")"
		return false
	}
	tb, err := os.ReadFile(filepath.Join(eng.verifDir, "replay", "C16.go.tmpl"))
	if err != nil {
		replay["replay"] = "adapter template missing"
		return false
	}
	get := func(k, d string) string {
		if v, ok := pm[k]; ok {
			return v
		}
		return d
	}
	fn := strings.SplitN(a.Name, "/", 2)[0]
	src := string(tb)
	src = strings.ReplaceAll(src, "{{FUNC}}", fn)
	src = strings.ReplaceAll(src, "{{period}}", get("period", "1000000000"))
	src = strings.ReplaceAll(src, "{{genesis}}", get("genesis", "0"))
	src = strings.ReplaceAll(src, "{{now}}", get("now", "0"))
	src = strings.ReplaceAll(src, "{{round}}", get("round", "1"))
	replay["model_input"] = pm
	failed, out := runOverlayTest(eng, "common", "zz_verif_replay_test.go", src, "TestVerifReplayC16")
	replay["replay_output"] = trunc2(out, 3000)
	replay["replay_cmd"] = "cd /repo && go test -overlay /verif/out/replay/overlay/overlay.json -vet=off -count=1 -run TestVerifReplayC16 -v ./common/"
	if failed {
		replay["replay"] = fmt.Sprintf("reproduced on the real code with %v", pm)
		return true
	}
	if fn != "TimeOfRound" {
		failed2, out2 := runOverlayTest(eng, "common", "zz_verif_replay_test.go", src, "TestVerifSearchC16")
		if failed2 {
			replay["replay_output"] = trunc2(out2, 3000)
			replay["replay_cmd"] = "cd /repo && go test -overlay /verif/out/replay/overlay/overlay.json -vet=off -count=1 -run TestVerifSearchC16 -v ./common/"
			replay["replay"] = "solver model itself did not reproduce (float error model over-approximates IEEE rounding); a bounded boundary-directed search on the real code (periods 1..6000 s, multiples of the period +-1) found a failing input: see replay_output"
			return true
		}
	}
	replay["replay"] = "solver model did not reproduce on the real code (float error model is an over-approximation of IEEE rounding); obligation still undischarged"
	return false
}
