package main

// Soundness side conditions of channel invariants (`chan <var>: invariant e`).
// The invariant is assumed at receives, so every send on that channel has to be a checked one: the channel must be
// created by the function that declares the variable, be used for channel operations only, and be shared only with
// closures of that function that carry the same clause. Variables the invariant names must not change after
// initialisation. Anything else is reported as an obligation that cannot be generated.

import (
	"fmt"
	"go/token"
	"go/types"

	"golang.org/x/tools/go/ssa"
)

func (e *Engine) chanInvErrors(fc *FuncContract, fn *ssa.Function) []string {
	var errs []string
	for _, c := range fc.ChanInvs {
		owner := fn
		for owner.Parent() != nil && freeVarNamed(owner, c.CallName) != nil {
			owner = owner.Parent()
		}
		bad := func(f string, a ...any) {
			errs = append(errs, fmt.Sprintf("%s:%d: channel invariant on `%s` is not sound here: %s", c.File, c.Line, c.CallName, fmt.Sprintf(f, a...)))
		}
		cell := allocNamed(owner, c.CallName)
		var direct ssa.Value
		if cell == nil {
			direct = makeChanNamed(owner, c.CallName)
			if direct == nil {
				bad("no local channel variable of that name created with make in %s", owner.Name())
				continue
			}
		}
		seen := map[*ssa.Function]bool{}
		var chanUses func(f *ssa.Function, v ssa.Value)
		var cellUses func(f *ssa.Function, cell ssa.Value)
		closureOK := func(g *ssa.Function) bool {
			gc := e.cs.Funcs[funcKey(g)]
			if gc == nil {
				bad("closure %s shares the channel but has no contract", g.Name())
				return false
			}
			for _, c2 := range gc.ChanInvs {
				if c2.CallName == c.CallName && c2.Src == c.Src {
					return true
				}
			}
			bad("closure %s shares the channel but does not carry the same `chan %s: invariant` clause", g.Name(), c.CallName)
			return false
		}
		chanUses = func(f *ssa.Function, v ssa.Value) {
			for _, r := range *v.Referrers() {
				switch x := r.(type) {
				case *ssa.Send:
					if x.X == v {
						bad("the channel itself is sent on a channel in %s", f.Name())
					}
				case *ssa.UnOp:
					if x.Op != token.ARROW {
						bad("unexpected use of the channel in %s", f.Name())
					}
				case *ssa.Select:
					for _, s := range x.States {
						if s.Send == v {
							bad("the channel itself is sent on a channel in %s", f.Name())
						}
					}
				case *ssa.DebugRef:
				case *ssa.Store:
					if x.Val == v && !(cell != nil && isCellOf(x.Addr, c.CallName)) {
						bad("the channel is stored somewhere else in %s", f.Name())
					}
				case *ssa.MakeClosure:
					g := x.Fn.(*ssa.Function)
					for i, b := range x.Bindings {
						if b == v && !seen[g] {
							seen[g] = true
							if closureOK(g) {
								chanUses(g, g.FreeVars[i])
							}
						}
					}
				case ssa.CallInstruction:
					cc := x.Common()
					if b, ok := cc.Value.(*ssa.Builtin); ok && (b.Name() == "close" || b.Name() == "len" || b.Name() == "cap") {
						continue
					}
					bad("the channel is passed to a call in %s (its sends would not be checked)", f.Name())
				default:
					bad("the channel escapes in %s (%T)", f.Name(), r)
				}
			}
		}
		cellUses = func(f *ssa.Function, cv ssa.Value) {
			for _, r := range *cv.Referrers() {
				switch x := r.(type) {
				case *ssa.Store:
					if x.Val == cv {
						bad("the address of the channel variable is stored in %s", f.Name())
					} else if _, ok := x.Val.(*ssa.MakeChan); !ok {
						bad("the channel variable is assigned something other than a fresh make(chan) in %s", f.Name())
					} else {
						chanUses(f, x.Val)
					}
				case *ssa.UnOp:
					if x.Op == token.MUL {
						chanUses(f, x)
					}
				case *ssa.DebugRef:
				case *ssa.MakeClosure:
					g := x.Fn.(*ssa.Function)
					for i, b := range x.Bindings {
						if b == cv && !seen[g] {
							seen[g] = true
							if closureOK(g) {
								cellUses(g, g.FreeVars[i])
							}
						}
					}
				default:
					bad("the channel variable escapes in %s (%T)", f.Name(), r)
				}
			}
		}
		if cell != nil {
			cellUses(owner, cell)
		} else {
			chanUses(owner, direct)
		}
		// variables the invariant names must be assigned at most once
		ids := map[string]bool{}
		freeIdents(c.E, map[string]bool{"elem": true}, ids)
		for id := range ids {
			if id == c.CallName {
				continue
			}
			if n := storesToNamed(owner, id); n > 1 {
				bad("variable %s named by the invariant is assigned %d times", id, n)
			}
		}
	}
	return errs
}

func freeVarNamed(f *ssa.Function, name string) *ssa.FreeVar {
	for _, fv := range f.FreeVars {
		if fv.Name() == name {
			return fv
		}
	}
	return nil
}

func allocNamed(f *ssa.Function, name string) *ssa.Alloc {
	for _, b := range f.Blocks {
		for _, in := range b.Instrs {
			if a, ok := in.(*ssa.Alloc); ok && a.Comment == name {
				if _, isCh := a.Type().Underlying().(*types.Pointer).Elem().Underlying().(*types.Chan); isCh {
					return a
				}
			}
		}
	}
	return nil
}

func makeChanNamed(f *ssa.Function, name string) ssa.Value {
	for _, b := range f.Blocks {
		for _, in := range b.Instrs {
			if d, ok := in.(*ssa.DebugRef); ok && !d.IsAddr && d.Object() != nil && d.Object().Name() == name {
				if mc, ok := d.X.(*ssa.MakeChan); ok {
					return mc
				}
			}
		}
	}
	return nil
}

func isCellOf(addr ssa.Value, name string) bool {
	switch a := addr.(type) {
	case *ssa.Alloc:
		return a.Comment == name
	case *ssa.FreeVar:
		return a.Name() == name
	}
	return false
}

// storesToNamed counts the stores to the variable `name` (its cell in f or the free variable of that name in the
// functions nested in f).
func storesToNamed(f *ssa.Function, name string) int {
	n := 0
	for _, b := range f.Blocks {
		for _, in := range b.Instrs {
			if s, ok := in.(*ssa.Store); ok && isCellOf(s.Addr, name) {
				n++
			}
		}
	}
	for _, g := range f.AnonFuncs {
		n += storesToNamed(g, name)
	}
	return n
}
