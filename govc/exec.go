package main

import (
	"os"
	"fmt"
	"go/token"
	"regexp"
	"sync"
	"go/constant"
	"go/types"
	"math/big"
	"sort"
	"strings"

	"golang.org/x/tools/go/ssa"
)

type callLabel struct {
	name string
	ord  int
}

type VerifyFunc struct {
	eng       *Engine
	fn        *ssa.Function
	fc        *FuncContract
	key       string
	obligs    []*Oblig
	notes     map[string]int
	paths     int
	truncated bool
	env       map[string]*Val // contract names -> entry values
	params    []*Val
	nopanic   bool
	lockcheck bool
	usedCallClauses map[*Clause]bool
	usedLoops map[int]bool
	returns   int
	entryFrontier string
	ownEval bool // the clause being evaluated belongs to the function under verification
}

type funcInfo struct {
	headers  map[*ssa.BasicBlock]int
	loopBody map[*ssa.BasicBlock]map[*ssa.BasicBlock]bool
	callOrd  map[ssa.Instruction]callLabel
	chanOrd  map[ssa.Instruction]int // ordinal of channel operations (send / receive / select) in source order
}

var funcInfoCache = map[*ssa.Function]*funcInfo{}

func (e *Engine) info(fn *ssa.Function) *funcInfo {
	e.mu.Lock()
	defer e.mu.Unlock()
	if fi, ok := funcInfoCache[fn]; ok {
		return fi
	}
	fi := &funcInfo{headers: map[*ssa.BasicBlock]int{}, loopBody: map[*ssa.BasicBlock]map[*ssa.BasicBlock]bool{}, callOrd: map[ssa.Instruction]callLabel{}, chanOrd: map[ssa.Instruction]int{}}
	// back edges: n -> h with h dominating n
	var hs []*ssa.BasicBlock
	for _, b := range fn.Blocks {
		for _, s := range b.Succs {
			if s.Dominates(b) {
				if _, ok := fi.loopBody[s]; !ok {
					fi.loopBody[s] = map[*ssa.BasicBlock]bool{s: true}
					hs = append(hs, s)
				}
				// natural loop: nodes reaching b without passing s
				var stack []*ssa.BasicBlock
				if !fi.loopBody[s][b] {
					fi.loopBody[s][b] = true
					stack = append(stack, b)
				}
				for len(stack) > 0 {
					x := stack[len(stack)-1]
					stack = stack[:len(stack)-1]
					for _, p := range x.Preds {
						if !fi.loopBody[s][p] {
							fi.loopBody[s][p] = true
							stack = append(stack, p)
						}
					}
				}
			}
		}
	}
	sort.Slice(hs, func(i, j int) bool { return hs[i].Index < hs[j].Index })
	for i, h := range hs {
		fi.headers[h] = i
	}
	// call-site ordinals follow SOURCE order (token.Pos), not block order: block numbering changes when
	// unrelated control flow is added, source order does not
	type csite struct {
		in  ssa.Instruction
		cc  *ssa.CallCommon
		pos int
		seq int
	}
	var sites []csite
	seq := 0
	for _, b := range fn.Blocks {
		for _, in := range b.Instrs {
			var cc *ssa.CallCommon
			switch c := in.(type) {
			case *ssa.Call:
				cc = &c.Call
			case *ssa.Defer:
				cc = &c.Call
			case *ssa.Go:
				cc = &c.Call
			}
			if cc == nil {
				continue
			}
			p := int(in.Pos())
			if p == 0 {
				p = 1 << 40
			}
			sites = append(sites, csite{in, cc, p, seq})
			seq++
		}
	}
	sort.SliceStable(sites, func(i, j int) bool {
		if sites[i].pos != sites[j].pos {
			return sites[i].pos < sites[j].pos
		}
		return sites[i].seq < sites[j].seq
	})
	{
		type chsite struct {
			in  ssa.Instruction
			pos int
			seq int
		}
		var chs []chsite
		sq := 0
		for _, b := range fn.Blocks {
			for _, in := range b.Instrs {
				isCh := false
				switch x := in.(type) {
				case *ssa.Send, *ssa.Select:
					isCh = true
				case *ssa.UnOp:
					isCh = x.Op == token.ARROW
				}
				if isCh {
					p := int(in.Pos())
					if p == 0 {
						p = 1 << 40
					}
					chs = append(chs, chsite{in, p, sq})
					sq++
				}
			}
		}
		sort.SliceStable(chs, func(i, j int) bool {
			if chs[i].pos != chs[j].pos {
				return chs[i].pos < chs[j].pos
			}
			return chs[i].seq < chs[j].seq
		})
		for i, c := range chs {
			fi.chanOrd[c.in] = i
		}
	}
	counts := map[string]int{}
	for _, cs := range sites {
		n := calleeShortName(cs.cc)
		fi.callOrd[cs.in] = callLabel{n, counts[n]}
		counts[n]++
	}
	funcInfoCache[fn] = fi
	return fi
}

func calleeShortName(cc *ssa.CallCommon) string {
	if cc.IsInvoke() {
		return cc.Method.Name()
	}
	switch v := cc.Value.(type) {
	case *ssa.Function:
		n := v.Name()
		return n
	case *ssa.MakeClosure:
		return v.Fn.Name()
	case *ssa.Builtin:
		return v.Name()
	case *ssa.UnOp:
		if fa, ok := v.X.(*ssa.FieldAddr); ok {
			st := structFields(fa.X.Type().Underlying().(*types.Pointer).Elem())
			return st.Field(fa.Field).Name()
		}
		if fv, ok := v.X.(*ssa.FreeVar); ok {
			return fv.Name() // call through a captured func variable
		}
		if al, ok := v.X.(*ssa.Alloc); ok && al.Comment != "" {
			return al.Comment // call through a local func variable
		}
	case *ssa.Field:
		st := structFields(v.X.Type())
		return st.Field(v.Field).Name()
	}
	return "dyn"
}

// ---- obligations -------------------------------------------------------

var reAxiomSym = regexp.MustCompile(`g_[A-Za-z0-9_]+|\|H0![^|]+\|`)

var reSymTok = regexp.MustCompile(`\|[^|]+\||[A-Za-z_][A-Za-z0-9_!.$]*`)
var symCache sync.Map

func symsOf(a string) []string {
	if v, ok := symCache.Load(a); ok {
		return v.([]string)
	}
	seen := map[string]bool{}
	var out []string
	for _, t := range reSymTok.FindAllString(a, -1) {
		if (strings.Contains(t, "!") || strings.HasPrefix(t, "g_")) && !seen[t] {
			seen[t] = true
			out = append(out, t)
		}
	}
	symCache.Store(a, out)
	return out
}

// sliceAssumes keeps only the assumptions connected to the goal through shared symbols (cone of influence).
// Dropping hypotheses can only make a proof harder, never unsound.
func (st *State) sliceAssumes(goal string) map[int]bool {
	keep := map[int]bool{}
	have := map[string]bool{}
	for _, s := range symsOf(goal) {
		have[s] = true
	}
	// index: symbol -> assumption indices
	idx := map[string][]int{}
	for i, a := range st.assumes {
		for _, s := range symsOf(a) {
			idx[s] = append(idx[s], i)
		}
	}
	work := make([]string, 0, len(have))
	for s := range have {
		work = append(work, s)
	}
	for len(work) > 0 {
		s := work[len(work)-1]
		work = work[:len(work)-1]
		for _, i := range idx[s] {
			if keep[i] || st.isAxiom[i] {
				continue
			}
			keep[i] = true
			for _, t := range symsOf(st.assumes[i]) {
				if !have[t] {
					have[t] = true
					work = append(work, t)
				}
			}
		}
	}
	// ground assumptions without any symbol (e.g. literal facts) are kept
	for i, a := range st.assumes {
		if len(symsOf(a)) == 0 {
			keep[i] = true
		}
	}
	return keep
}

func (st *State) script(goal string) string {
	var b strings.Builder
	for _, d := range st.decls {
		b.WriteString(d)
		b.WriteByte('\n')
	}
	// axioms are included only when one of their ghost / global symbols occurs elsewhere in the query
	var keep map[int]bool
	if goal != "false" && os.Getenv("GOVC_NOSLICE") == "" {
		keep = st.sliceAssumes(goal)
	}
	var rest strings.Builder
	for i, a := range st.assumes {
		if !st.isAxiom[i] && (keep == nil || keep[i]) {
			rest.WriteString(a)
			rest.WriteByte('\n')
		}
	}
	rest.WriteString(goal)
	restS := rest.String()
	for i, a := range st.assumes {
		if st.isAxiom[i] {
			rel := false
			for _, symb := range reAxiomSym.FindAllString(a, -1) {
				if strings.Contains(restS, symb) {
					rel = true
					break
				}
			}
			if !rel {
				continue
			}
		} else if keep != nil && !keep[i] {
			continue
		}
		b.WriteString("(assert ")
		b.WriteString(a)
		b.WriteString(")\n")
	}
	b.WriteString("(assert (not ")
	b.WriteString(goal)
	b.WriteString("))\n(check-sat)\n(get-model)\n")
	body := b.String()
	return st.eng.prelude(body) + body
}

func (st *State) check(kind, label, prop, src, where, goal string) {
	if kind == "nopanic" && st.vf.fc != nil && st.vf.fc.NoPanicProp != "" {
		prop = st.vf.fc.NoPanicProp
	}
	// obligations that come from a flag of the contract (lockcheck, nopanic, nonblocking, delivers, guarded maps) carry a
	// default property (C14 / C12 / C11): when the function under contract does not serve that property, they count under
	// the properties it does serve (otherwise they would be generated and never reported under any property)
	switch kind {
	case "lock", "nopanic", "nonblock", "delivery", "guarded":
		if fc := st.vf.fc; fc != nil && prop != "" && !strings.Contains(prop, ",") && len(fc.Props) > 0 && !fc.Props[prop] {
			prop = st.vf.propsOf(prop)
		}
	}
	cont := goal // what holds when execution continues past this point
	if kind == "nopanic" && goal != "false" && goal != "true" {
		if st.vf.fc != nil && st.vf.fc.Flags["recovered"] {
			// the handler runs under a panic-recovery interceptor: a panic is contained and reported to the caller;
			// it is a violation only if a lock would be left held (no deferred unlock covers it)
			goal = or(goal, st.locksCoveredByDefers())
		}
	}
	if st.facts[goal] {
		goal = "true" // already established on this path
	}
	if goal == "true" {
		// trivially true: still count it (discharged syntactically)
		st.vf.obligs = append(st.vf.obligs, &Oblig{Func: shortFuncName(st.vf.key), Kind: kind, Label: label, Prop: prop, Src: src, Where: where, Goal: goal, Trail: strings.Join(st.trail, " "), Res: SolverResult{Status: "unsat", Solver: "syntactic"}})
		if kind == "nopanic" && cont != "true" && cont != "false" && !st.facts[cont] {
			st.assume(cont)
			if st.facts == nil {
				st.facts = map[string]bool{}
			}
			st.facts[cont] = true
		}
		return
	}
	o := &Oblig{Func: shortFuncName(st.vf.key), Kind: kind, Label: label, Prop: prop, Src: src, Where: where, Goal: goal, Trail: strings.Join(st.trail, " ")}
	o.Script = st.script(goal)
	{
		// reachability of this obligation: the assumptions collected so far (the obligation's own goal excluded)
		snap := &State{eng: st.eng, vf: st.vf, decls: st.decls[:len(st.decls):len(st.decls)], assumes: st.assumes[:len(st.assumes):len(st.assumes)], isAxiom: st.isAxiom}
		o.Cover = func() string { return snap.script("false") }
	}
	st.vf.obligs = append(st.vf.obligs, o)
	if kind == "guarded" || goal == "false" {
		// a statement about the ghost lock state, or a "this point must not be reached" obligation: assuming it after the
		// check would contradict what the path knows and make everything behind it vacuous
		return
	}
	// (a contained panic ends the path: behind a no-panic point the condition itself holds, not only the weaker
	// "or no lock would be left held" that was checked)
	st.assume(cont)
	if st.facts == nil {
		st.facts = map[string]bool{}
	}
	st.facts[goal] = true
	st.facts[cont] = true
}

// locksCoveredByDefers: every mutex acquired on this path is either free now or has a matching deferred
// Unlock/RUnlock pending in the top frame (so a panic here releases it while unwinding).
func (st *State) locksCoveredByDefers() string {
	fr := st.frames[0]
	deferred := map[string]bool{}
	for _, f := range st.frames {
		for _, d := range f.defers {
			if d.call.Call.IsInvoke() {
				continue
			}
			if fn, ok := d.call.Call.Value.(*ssa.Function); ok && len(d.args) > 0 {
				switch fn.String() {
				case "(*sync.Mutex).Unlock", "(*sync.RWMutex).Unlock", "(*sync.RWMutex).RUnlock":
					deferred[d.args[0].Tm] = true
				}
			}
		}
	}
	_ = fr
	var cs []string
	seen := map[string]bool{}
	for _, l := range st.locked {
		if seen[l.addr] || deferred[l.addr] {
			continue
		}
		seen[l.addr] = true
		cs = append(cs, and(not(sel(st.heapGet("L:w", "(Array Int Bool)"), l.addr)), eq(sel(st.heapGet("L:r", "(Array Int Int)"), l.addr), "0")))
	}
	return and(cs...)
}

func (st *State) pos(in ssa.Instruction) string {
	p := in.Pos()
	if !p.IsValid() {
		if in.Block() != nil && len(in.Block().Instrs) > 0 {
			for _, x := range in.Block().Instrs {
				if x.Pos().IsValid() {
					p = x.Pos()
					break
				}
			}
		}
	}
	ps := st.eng.prog.Fset.Position(p)
	return fmt.Sprintf("%s:%d", strings.TrimPrefix(ps.Filename, st.eng.repo+"/"), ps.Line)
}

// ---- value lookup ------------------------------------------------------

func (st *State) constVal(c *ssa.Const) *Val {
	t := c.Type()
	if c.Value == nil {
		return st.zeroVal(t)
	}
	s := sortOf(t)
	switch s {
	case SBool:
		return &Val{T: t, S: SBool, Tm: fmt.Sprint(constant.BoolVal(c.Value))}
	case SInt:
		v := constant.ToInt(c.Value)
		if v.Kind() == constant.Int {
			bi, ok := new(big.Int).SetString(v.ExactString(), 10)
			if ok {
				return &Val{T: t, S: SInt, Tm: num(bi)}
			}
		}
	case SReal:
		f := constant.ToFloat(c.Value)
		if f.Kind() == constant.Float || f.Kind() == constant.Int {
			r, ok := new(big.Rat).SetString(f.ExactString())
			if ok {
				return &Val{T: t, S: SReal, Tm: ratTerm(r)}
			}
		}
	case SStr:
		return &Val{T: t, S: SStr, Tm: st.eng.strLit(constant.StringVal(c.Value))}
	}
	return st.freshVal(t, "const")
}

func ratTerm(r *big.Rat) string {
	neg := r.Sign() < 0
	a := new(big.Rat).Abs(r)
	var s string
	if a.IsInt() {
		s = a.Num().String() + ".0"
	} else {
		s = "(/ " + a.Num().String() + ".0 " + a.Denom().String() + ".0)"
	}
	if neg {
		return "(- " + s + ")"
	}
	return s
}

func (st *State) get(fr *Frame, v ssa.Value) *Val {
	switch x := v.(type) {
	case *ssa.Const:
		return st.constVal(x)
	case *ssa.Function:
		return &Val{T: x.Type(), S: SInt, Tm: fmt.Sprint(1000000 + st.eng.typeTag(types.NewPointer(x.Type()))*0 + st.eng.fieldID("fn:"+x.String())), Fn: &FnVal{Key: funcKey(x), Static: x}}
	case *ssa.Global:
		return st.globalAddr(x)
	case *ssa.Builtin:
		return &Val{T: x.Type(), S: SInt, Tm: "0"}
	}
	if r, ok := fr.regs[v]; ok {
		return r
	}
	st.note("unbound SSA value " + v.Name() + " in " + fr.fn.Name())
	r := st.freshVal(v.Type(), "unbound_"+v.Name())
	fr.regs[v] = r
	return r
}

// globals: the address of a package-level variable is a fixed ref; its content lives in heap key V:<name>.
func (st *State) globalAddr(g *ssa.Global) *Val {
	name := g.Pkg.Pkg.Path() + "." + g.Name()
	id := 2000000 + st.eng.fieldID("glob:"+name)
	pt := g.Type()
	return &Val{T: pt, S: SInt, Tm: fmt.Sprint(id), A: &Addr{Kind: "global", Key: name, ElemT: pt.Underlying().(*types.Pointer).Elem()}}
}

// ---- memory ------------------------------------------------------------

func (st *State) load(p *Val, t types.Type) *Val {
	if p.A != nil {
		switch p.A.Kind {
		case "field":
			s := sortOf(t)
			h := st.heapGet(p.A.Key, heapSortFor(p.A.Key, s))
			v := &Val{T: t, S: s, Tm: sel(h, p.A.Base)}
			st.entryClosed(v, h, p.A.Key)
			if _, isSig := t.Underlying().(*types.Signature); isSig {
				v.Fn = &FnVal{Key: "field:" + strings.TrimPrefix(p.A.Key, "F:"), Self: &Val{S: SInt, Tm: p.A.Base}}
			}
			return v
		case "elem":
			s := sortOf(t)
			if s == "" {
				break
			}
			key := "E:" + s
			h := st.heapGet(key, heapSortFor(key, s))
			ev := &Val{T: t, S: s, Tm: sel(sel(h, p.A.Base), p.A.Idx)}
			st.entryClosed(ev, h, key)
			return ev
		case "bytes":
			h := st.heapGet("C:Bytes", heapSortFor("C:Bytes", SBytes))
			return &Val{T: t, S: SInt, Tm: "(bytes_at " + sel(h, p.A.Base) + " " + p.A.Idx + ")"}
		case "global":
			s := sortOf(t)
			if s == "" {
				// struct-typed global: object at fixed ref
				return st.loadStruct(p.Tm, t)
			}
			key := "V:" + p.A.Key
			if s == SIface && types.Identical(t, types.Universe.Lookup("error").Type()) {
				key = "V:err:" + p.A.Key
				_, seen := st.heap[key]
				h := st.heapGet(key, s)
				if !seen && !st.useOld {
					st.assume(not(eq(h, "iface_nil")))
					// sentinel errors exist before the call: distinct from every error created on this path
					for _, fe := range st.freshErrs {
						st.assume(not(eq(h, fe)))
					}
					for k2, v2 := range st.heap {
						if strings.HasPrefix(k2, "V:err:") && k2 != key {
							st.assume(not(eq(h, v2)))
						}
					}
				}
				return &Val{T: t, S: s, Tm: h}
			}
			h := st.heapGet(key, s)
			return &Val{T: t, S: s, Tm: h}
		}
	}
	if structFields(t) != nil {
		return st.loadStruct(p.Tm, t)
	}
	s := sortOf(t)
	if s == "" {
		// array by value
		return &Val{T: t, S: "", Tm: p.Tm}
	}
	key := "C:" + s
	h := st.heapGet(key, heapSortFor(key, s))
	v := &Val{T: t, S: s, Tm: sel(h, p.Tm)}
	st.entryClosed(v, h, key)
	return v
}

// entryClosed: a reference read from the heap as it was at function entry (array term still the initial constant)
// names an object that existed at entry, so it lies at or below the entry frontier: objects allocated by this
// activation are distinct from it.
func (st *State) entryClosed(v *Val, h, key string) {
	if st.entryFrontier == "" || v.T == nil || h != sym(st.initialHeapName(key, 0)) {
		return
	}
	var r string
	switch v.T.Underlying().(type) {
	case *types.Pointer, *types.Map, *types.Chan:
		if v.S != SInt {
			return
		}
		r = v.Tm
	case *types.Slice:
		if v.S != SSlice {
			return
		}
		r = "(s_base " + v.Tm + ")"
	default:
		return
	}
	f := "(and (<= " + r + " " + st.entryFrontier + ") (<= (obj_root " + r + ") " + st.entryFrontier + "))"
	if st.closedSeen == nil {
		st.closedSeen = map[string]bool{}
	}
	if st.closedSeen[f] {
		return
	}
	st.closedSeen[f] = true
	st.assume(f)
}

func (st *State) storeTo(p *Val, v *Val, t types.Type) {
	if p.A != nil {
		switch p.A.Kind {
		case "field":
			s := sortOf(t)
			as := heapSortFor(p.A.Key, s)
			h := st.heapGet(p.A.Key, as)
			st.heapSet(p.A.Key, as, store(h, p.A.Base, st.coerce(v, t).Tm))
			return
		case "elem":
			s := sortOf(t)
			if s == "" {
				break
			}
			key := "E:" + s
			as := heapSortFor(key, s)
			h := st.heapGet(key, as)
			st.heapSet(key, as, store(h, p.A.Base, store(sel(h, p.A.Base), p.A.Idx, st.coerce(v, t).Tm)))
			return
		case "bytes":
			as := heapSortFor("C:Bytes", SBytes)
			h := st.heapGet("C:Bytes", as)
			st.heapSet("C:Bytes", as, store(h, p.A.Base, "(bytes_upd "+sel(h, p.A.Base)+" "+p.A.Idx+" "+v.Tm+")"))
			return
		case "global":
			s := sortOf(t)
			if s == "" {
				st.storeStruct(p.Tm, t, v)
				return
			}
			key := "V:" + p.A.Key
			st.eng.noteHeapSort(key, s)
			st.heap[key] = st.coerce(v, t).Tm
			return
		}
	}
	if structFields(t) != nil {
		st.storeStruct(p.Tm, t, v)
		return
	}
	s := sortOf(t)
	if s == "" {
		st.note("store of array value abstracted")
		return
	}
	key := "C:" + s
	as := heapSortFor(key, s)
	h := st.heapGet(key, as)
	st.heapSet(key, as, store(h, p.Tm, st.coerce(v, t).Tm))
}

func (st *State) newRef(hint string) string {
	r := st.fresh(hint, SInt)
	// allocation order: a new object's reference is above the frontier, i.e. above every reference (and the
	// root of every reference) this path has seen so far; fresh references are therefore pairwise distinct
	if st.frontier == "" {
		st.frontier = "0"
	}
	st.assume("(> " + r + " " + st.frontier + ")")
	st.assume(eq("(obj_root "+r+")", r))
	// a new object is referenced from nowhere: no location of a heap array written on this path holds it
	// (arrays still at their entry value are covered by entryClosed at load time)
	var hk []string
	for k := range st.heap {
		hk = append(hk, k)
	}
	sortStrings(hk)
	for _, k := range hk {
		t := st.heap[k]
		if t == sym(st.initialHeapName(k, 0)) {
			continue
		}
		switch st.eng.heapSort(k) {
		case "(Array Int Int)":
			if strings.HasPrefix(k, "F:") || strings.HasPrefix(k, "C:") {
				st.assume("(forall ((fx Int)) (! (not (= (select " + t + " fx) " + r + ")) :pattern ((select " + t + " fx))))")
			}
		case "(Array Int (Array Int Int))":
			if k == "E:Int" {
				st.assume("(forall ((fb Int) (fx Int)) (! (not (= (select (select " + t + " fb) fx) " + r + ")) :pattern ((select (select " + t + " fb) fx))))")
			}
		}
	}
	st.frontier = r
	st.freshRefs = append(st.freshRefs, r)
	st.known = append(st.known, r)
	return r
}

func (st *State) knowRef(v *Val) {
	var ks []string
	st.collectRefs(v, &ks)
	if len(ks) == 0 {
		return
	}
	if st.frontier == "" {
		st.frontier = "0"
	}
	f := st.fresh("frontier", SInt)
	cs := []string{"(>= " + f + " " + st.frontier + ")"}
	for _, k := range ks {
		cs = append(cs, "(>= "+f+" "+k+")", "(>= "+f+" (obj_root "+k+"))")
	}
	st.assume(and(cs...))
	st.frontier = f
}

func (st *State) collectRefs(v *Val, ks *[]string) {
	if v == nil {
		return
	}
	if v.S == SInt && v.T != nil {
		switch v.T.Underlying().(type) {
		case *types.Pointer, *types.Map, *types.Chan:
			if _, isNum := parseNum(v.Tm); !isNum {
				*ks = append(*ks, v.Tm)
			}
		}
	}
	if v.S == SSlice {
		*ks = append(*ks, "(s_base "+v.Tm+")")
	}
	if v.S == SIface {
		*ks = append(*ks, "(i_val "+v.Tm+")")
	}
	for _, f := range v.Fs {
		st.collectRefs(f, ks)
	}
}

// ---- main interpreter loop --------------------------------------------

type pathEnd struct{}

func (vf *VerifyFunc) run(st *State) {
	for !st.dead {
		if vf.truncated {
			return
		}
		fr := st.top()
		if fr.idx >= len(fr.block.Instrs) {
			st.note("fell off block")
			return
		}
		st.steps++
		if st.steps > 20000 {
			st.note("path too long")
			vf.truncated = true
			return
		}
		in := fr.block.Instrs[fr.idx]
		cont := vf.step(st, fr, in)
		if !cont {
			return
		}
	}
}

// enterBlock moves the top frame to block b (from its current block), handling phis and loop cut points.
// Returns false when the path ends here (back edge).
func (vf *VerifyFunc) enterBlock(st *State, fr *Frame, b *ssa.BasicBlock) bool {
	from := fr.block
	fi := vf.eng.info(fr.fn)
	// phis evaluated simultaneously
	var phiVals []*Val
	var phis []*ssa.Phi
	for _, in := range b.Instrs {
		phi, ok := in.(*ssa.Phi)
		if !ok {
			break
		}
		idx := -1
		for i, p := range b.Preds {
			if p == from {
				idx = i
				break
			}
		}
		phis = append(phis, phi)
		if idx < 0 {
			phiVals = append(phiVals, st.freshVal(phi.Type(), "phi"))
		} else {
			v := st.get(fr, phi.Edges[idx])
			phiVals = append(phiVals, st.coercePhi(v, phi.Type()))
		}
	}
	for i, phi := range phis {
		fr.regs[phi] = phiVals[i]
		if phi.Comment != "" {
			fr.vars[phi.Comment] = phiVals[i]
		}
	}
	fr.prev = from
	fr.block = b
	fr.idx = len(phis)
	ord, isHeader := fi.headers[b]
	if !isHeader {
		return true
	}
	// loop-carried variables are also visible under "<name><loop ordinal>" (rangeindex0, rangeindex1, ...) so that
	// the invariant of an inner loop can name the position of an outer one
	for i, phi := range phis {
		if phi.Comment != "" {
			fr.vars[fmt.Sprintf("%s%d", phi.Comment, ord)] = phiVals[i]
		}
	}
	top := len(st.frames) == 1
	var invs []*Clause
	if top && vf.fc != nil {
		invs = vf.fc.Loops[ord]
		vf.usedLoops[ord] = true
	}
	back := b.Dominates(from)
	where := st.pos(b.Instrs[len(b.Instrs)-1])
	if back {
		if top && vf.fc != nil && vf.fc.HasMod && !vf.fc.Flags["trustedframe"] {
			vf.checkFrame(st, where, "frame.loop")
		}
		for i, c := range invs {
			t := vf.evalClause(st, c, vf.loopEnv(fr), nil)
			st.check("inv.pres", lbl(c, fmt.Sprintf("loop%d.%d", ord, i)), c.Prop, c.Src, where, t)
		}
		return false // path ends at back edge
	}
	for i, c := range invs {
		t := vf.evalClause(st, c, vf.loopEnv(fr), nil)
		st.check("inv.init", lbl(c, fmt.Sprintf("loop%d.%d", ord, i)), c.Prop, c.Src, where, t)
	}
	// havoc everything the loop may modify
	for _, phi := range phis {
		nv := st.freshVal(phi.Type(), "loop_"+phi.Comment)
		st.knowRef(nv) // whatever a loop-carried variable refers to existed before this iteration's allocations
		fr.regs[phi] = nv
		if isRangeIndexPhi(phi) {
			// index of a range loop over a slice / array / string: starts at -1, steps by one, is compared with the length
			// before every use: it never goes below -1 (implicit invariant of the lowering)
			st.assume("(>= " + nv.Tm + " (- 1))")
			if lv := rangeLenOf(phi); lv != nil {
				if l, ok := fr.regs[lv]; ok && l.S == SInt {
					// every index the loop has reached passed the test `index < len`; -1 is below any length
					st.assume("(< " + nv.Tm + " " + l.Tm + ")")
				} else if c, ok := lv.(*ssa.Const); ok && c.Value != nil {
					st.assume("(< " + nv.Tm + " " + c.Value.ExactString() + ")")
				}
			}
		}
		if phi.Comment != "" {
			fr.vars[phi.Comment] = nv
			fr.vars[fmt.Sprintf("%s%d", phi.Comment, ord)] = nv
		}
	}
	hk := vf.havocLoop(st, fr, fi.loopBody[b])
	if top {
		vf.assumeLoopFrame(st, hk)
	}
	for _, c := range invs {
		st.assume(vf.evalClause(st, c, vf.loopEnv(fr), nil))
	}
	st.trail = append(st.trail, fmt.Sprintf("loop%d", ord))
	return true
}

// isRangeIndexPhi recognises go/ssa's lowering of `for i := range s`: rangeindex = phi [-1, rangeindex + 1].
func isRangeIndexPhi(phi *ssa.Phi) bool {
	if phi.Comment != "rangeindex" || len(phi.Edges) != 2 {
		return false
	}
	init, step := false, false
	for _, e := range phi.Edges {
		switch x := e.(type) {
		case *ssa.Const:
			if x.Value != nil && x.Value.ExactString() == "-1" {
				init = true
			}
		case *ssa.BinOp:
			if x.Op == token.ADD && x.X == ssa.Value(phi) {
				if c, ok := x.Y.(*ssa.Const); ok && c.Value != nil && c.Value.ExactString() == "1" {
					step = true
				}
			}
		}
	}
	return init && step
}

// rangeLenOf: the length value the incremented range index is compared with (`rangeindex + 1 < len`).
func rangeLenOf(phi *ssa.Phi) ssa.Value {
	for _, e := range phi.Edges {
		inc, ok := e.(*ssa.BinOp)
		if !ok || inc.Op != token.ADD || inc.X != ssa.Value(phi) {
			continue
		}
		for _, r := range *inc.Referrers() {
			if cmp, ok := r.(*ssa.BinOp); ok && cmp.Op == token.LSS && cmp.X == ssa.Value(inc) {
				return cmp.Y
			}
		}
	}
	return nil
}

func lbl(c *Clause, def string) string {
	if c.Label != "" {
		return c.Label
	}
	return def
}

func (st *State) coercePhi(v *Val, t types.Type) *Val {
	if v.A != nil && v.A.Kind != "global" {
		st.note("address of scalar location flows through phi (abstracted)")
	}
	return st.coerce(v, t)
}

func (vf *VerifyFunc) loopEnv(fr *Frame) map[string]*Val {
	env := map[string]*Val{}
	for k, v := range vf.env {
		env[k] = v
	}
	for k, v := range fr.vars {
		env[k] = v
	}
	return env
}

// havocLoop forgets heap state written inside the loop body.
func (vf *VerifyFunc) havocLoop(st *State, fr *Frame, body map[*ssa.BasicBlock]bool) []string {
	keys := map[string]bool{}
	all := false
	allWhy := ""
	for b := range body {
		for _, in := range b.Instrs {
			switch x := in.(type) {
			case *ssa.Store:
				for _, k := range vf.storeKeys(x.Addr) {
					keys[k] = true
				}
			case *ssa.MapUpdate:
				dk, _, vk, _, lk, _, _ := mapHeap(x.Map.Type())
				keys[dk] = true
				keys[vk] = true
				keys[lk] = true
			case *ssa.Go:
				// effects of a spawned goroutine are not part of the sequential model (stated in evidence)
			case *ssa.Call, *ssa.Defer:
				cc := in.(ssa.CallInstruction).Common()
				if !cc.IsInvoke() && types.TypeString(cc.Value.Type(), nil) == "context.CancelFunc" {
					keys["G:ctxDone"] = true // a cancel function marks its context done
				}
				eff := vf.eng.callEffect(cc)
				switch eff.kind {
				case "pure":
				case "keys":
					for _, k := range eff.keys {
						keys[k] = true
					}
				default:
					all = true
					allWhy = vf.eng.calleeKey(cc)
					if allWhy == "" {
						allWhy = "dynamic call " + calleeShortName(cc)
					}
				}
			case *ssa.Select:
				keys["G:ctxDone"] = true // a receive from ctx.Done() that goes through marks the context done
			case *ssa.Send:
			case *ssa.Alloc:
				// allocation inside loops: objects are fresh each iteration
			}
		}
	}
	if all {
		st.havocAll("loop body of " + fr.fn.Name() + " calls " + shortFuncName(allWhy) + " whose effects are unknown")
		return nil
	}
	var ks []string
	for k := range keys {
		ks = append(ks, k)
	}
	sort.Strings(ks)
	for _, k := range ks {
		st.havocKey(k)
	}
	return ks
}

func (vf *VerifyFunc) storeKeys(addr ssa.Value) []string {
	pt, ok := addr.Type().Underlying().(*types.Pointer)
	if !ok {
		return nil
	}
	et := pt.Elem()
	switch a := addr.(type) {
	case *ssa.FieldAddr:
		stT := a.X.Type().Underlying().(*types.Pointer).Elem()
		key, ft := vf.eng.fieldKey(stT, a.Field)
		if structFields(ft) != nil {
			return vf.structKeys(ft)
		}
		return []string{key}
	case *ssa.IndexAddr:
		s := sortOf(et)
		if s == "" {
			return vf.structKeys(et)
		}
		if isByte(et) {
			return []string{"C:Bytes", "E:Int"}
		}
		return []string{"E:" + s}
	case *ssa.Global:
		return []string{"V:" + a.Pkg.Pkg.Path() + "." + a.Name()}
	}
	if structFields(et) != nil {
		return vf.structKeys(et)
	}
	s := sortOf(et)
	if s == "" {
		return nil
	}
	return []string{"C:" + s}
}

func (vf *VerifyFunc) structKeys(t types.Type) []string {
	var out []string
	s := structFields(t)
	for i := 0; i < s.NumFields(); i++ {
		k, ft := vf.eng.fieldKey(t, i)
		if structFields(ft) != nil {
			out = append(out, vf.structKeys(ft)...)
		} else {
			out = append(out, k)
		}
	}
	return out
}

func (vf *VerifyFunc) step(st *State, fr *Frame, in ssa.Instruction) bool {
	eng := vf.eng
	_ = eng
	switch x := in.(type) {
	case *ssa.DebugRef:
		vf.debugRef(st, fr, x)
		fr.idx++
		return true
	case *ssa.Alloc:
		// a captured variable that is assigned once here and only read by the closures that share it keeps its value
		// whatever else runs (nobody else holds its address): treat its cell like a non-escaping local
		fr.regs[x] = st.alloc(x.Type().Underlying().(*types.Pointer).Elem(), x.Comment, !x.Heap || writeOnceShared(x))
		fr.idx++
		return true
	case *ssa.BinOp:
		fr.regs[x] = vf.binop(st, fr, x)
		fr.idx++
		return true
	case *ssa.UnOp:
		fr.regs[x] = vf.unop(st, fr, x)
		fr.idx++
		return true
	case *ssa.Phi:
		fr.idx++ // handled in enterBlock
		return true
	case *ssa.Jump:
		return vf.enterBlock(st, fr, fr.block.Succs[0])
	case *ssa.If:
		c := st.get(fr, x.Cond)
		tb, fb := fr.block.Succs[0], fr.block.Succs[1]
		if c.Tm == "true" {
			return vf.enterBlock(st, fr, tb)
		}
		if c.Tm == "false" {
			return vf.enterBlock(st, fr, fb)
		}
		if v, ok := st.decided(c.Tm); ok {
			// the branch condition is already fixed by an earlier decision on this path (e.g. the same type switch twice)
			if v {
				return vf.enterBlock(st, fr, tb)
			}
			return vf.enterBlock(st, fr, fb)
		}
		vf.paths++
		if vf.paths > eng.maxPaths {
			vf.truncated = true
			return false
		}
		// fork: false branch in a copy
		st2 := st.fork()
		fr2 := st2.top()
		st2.assume(not(c.Tm))
		st2.decide(c.Tm, false)
		st2.trail = append(st2.trail, fmt.Sprintf("b%d:F", fr.block.Index))
		if vf.enterBlock(st2, fr2, fb) {
			vf.run(st2)
		}
		st.assume(c.Tm)
		st.decide(c.Tm, true)
		st.trail = append(st.trail, fmt.Sprintf("b%d:T", fr.block.Index))
		return vf.enterBlock(st, fr, tb)
	case *ssa.Return:
		var rs []*Val
		for _, r := range x.Results {
			rs = append(rs, st.get(fr, r))
		}
		return vf.doReturn(st, fr, rs, in)
	case *ssa.Panic:
		if vf.nopanic {
			st.check("nopanic", "explicit-panic@"+st.pos(in), "C14", "panic(...) reachable", st.pos(in), "false")
		}
		return false
	case *ssa.RunDefers:
		if len(fr.defers) == 0 {
			fr.idx++
			return true
		}
		d := fr.defers[len(fr.defers)-1]
		fr.defers = fr.defers[:len(fr.defers)-1]
		fr.pendingDefer = true
		res, pushed := vf.doCall(st, fr, d.call, &d.call.Call, d.args, d.fnv)
		if pushed {
			return true
		}
		_ = res
		fr.pendingDefer = false
		return !st.dead
	case *ssa.Defer:
		args, fnv := vf.evalCallArgs(st, fr, &x.Call)
		fr.defers = append(fr.defers, &deferred{call: x, args: args, fnv: fnv})
		fr.idx++
		return true
	case *ssa.Go:
		// goroutine body not analysed at the site (it is verified on its own under its contract); the spawning
		// site must establish the callee's preconditions with the argument values it passes
		vf.goSite(st, fr, x)
		fr.idx++
		return true
	case *ssa.Call:
		if b, ok := x.Call.Value.(*ssa.Builtin); ok && b.Name() == "append" && len(x.Call.Args) == 2 && sortOf(x.Call.Args[0].Type()) == SSlice && sortOf(x.Call.Args[1].Type()) == SSlice {
			// append either fits the capacity (in place) or reallocates: explore both outcomes
			vf.paths++
			if vf.paths > eng.maxPaths {
				vf.truncated = true
				return false
			}
			st2 := st.fork()
			st2.appendInplace = false
			st2.trail = append(st2.trail, fmt.Sprintf("append@b%d:realloc", fr.block.Index))
			fr2 := st2.top()
			a2, _ := vf.evalCallArgs(st2, fr2, &x.Call)
			fr2.regs[x] = vf.builtin(st2, fr2, in, "append", &x.Call, a2)
			fr2.idx++
			vf.run(st2)
			st.appendInplace = true
			st.trail = append(st.trail, fmt.Sprintf("append@b%d:inplace", fr.block.Index))
		}
		args, fnv := vf.evalCallArgs(st, fr, &x.Call)
		res, pushed := vf.doCall(st, fr, x, &x.Call, args, fnv)
		if pushed {
			return true
		}
		if st.dead {
			return false
		}
		if res != nil {
			res = vf.ctxDerive(st, &x.Call, args, res)
			if x.Call.IsInvoke() && x.Call.Method.Name() == "Done" && types.TypeString(x.Call.Value.Type(), nil) == "context.Context" && len(args) > 0 && args[0].S == SIface {
				r2 := *res
				r2.DoneOf = "(i_val " + args[0].Tm + ")"
				res = &r2
			}
			fr.regs[x] = res
		}
		fr.idx++
		return true
	case *ssa.Store:
		p := st.get(fr, x.Addr)
		v := st.get(fr, x.Val)
		vf.derefCheck(st, p, in)
		st.storeTo(p, v, x.Addr.Type().Underlying().(*types.Pointer).Elem())
		fr.idx++
		return true
	case *ssa.FieldAddr:
		base := st.get(fr, x.X)
		vf.derefCheck(st, base, in)
		stT := x.X.Type().Underlying().(*types.Pointer).Elem()
		key, ft := eng.fieldKey(stT, x.Field)
		if structFields(ft) != nil {
			fr.regs[x] = &Val{T: x.Type(), S: SInt, Tm: st.subObj(base.Tm, key)}
		} else if a, ok := ft.Underlying().(*types.Array); ok {
			// pointer to array field: treat as backing ref derived from the field address
			_ = a
			fr.regs[x] = &Val{T: x.Type(), S: SInt, Tm: st.subObj(base.Tm, key)}
		} else {
			fr.regs[x] = &Val{T: x.Type(), S: SInt, Tm: st.subObj(base.Tm, key), A: &Addr{Kind: "field", Base: base.Tm, Key: key, ElemT: ft}}
		}
		fr.idx++
		return true
	case *ssa.Field:
		sv := st.get(fr, x.X)
		if x.Field < len(sv.Fs) {
			fr.regs[x] = sv.Fs[x.Field]
		} else {
			fr.regs[x] = st.freshVal(x.Type(), "field")
		}
		fr.idx++
		return true
	case *ssa.IndexAddr:
		fr.regs[x] = vf.indexAddr(st, fr, x)
		fr.idx++
		return true
	case *ssa.Index:
		fr.regs[x] = vf.indexVal(st, fr, x)
		fr.idx++
		return true
	case *ssa.Lookup:
		vf.guardCheck(st, fr, x.X, false, in)
		fr.regs[x] = vf.lookup(st, fr, x)
		fr.idx++
		return true
	case *ssa.MapUpdate:
		vf.guardCheck(st, fr, x.Map, true, in)
		vf.mapUpdate(st, fr, x)
		fr.idx++
		return true
	case *ssa.MakeMap:
		r := st.newRef("map")
		dk, das, _, _, lk, ks, _ := mapHeap(x.Type())
		if ks != "" {
			st.heapSet(dk, das, store(st.heapGet(dk, das), r, "((as const (Array "+ks+" Bool)) false)"))
			las := "(Array Int Int)"
			st.heapSet(lk, las, store(st.heapGet(lk, las), r, "0"))
		}
		fr.regs[x] = &Val{T: x.Type(), S: SInt, Tm: r}
		fr.idx++
		return true
	case *ssa.MakeSlice:
		ln := st.get(fr, x.Len)
		cp := st.get(fr, x.Cap)
		fr.regs[x] = vf.makeSlice(st, x.Type(), ln.Tm, cp.Tm)
		fr.idx++
		return true
	case *ssa.MakeChan:
		r := st.newRef("chan")
		sz := st.get(fr, x.Size)
		st.assume(eq("(chan_cap "+r+")", sz.Tm))
		fr.regs[x] = &Val{T: x.Type(), S: SInt, Tm: r}
		fr.idx++
		return true
	case *ssa.MakeClosure:
		fn := x.Fn.(*ssa.Function)
		var bs []*Val
		for _, b := range x.Bindings {
			bs = append(bs, st.get(fr, b))
		}
		r := st.newRef("closure")
		fr.regs[x] = &Val{T: x.Type(), S: SInt, Tm: r, Fn: &FnVal{Key: funcKey(fn), Static: fn, Bindings: bs}}
		fr.idx++
		return true
	case *ssa.MakeInterface:
		fr.regs[x] = vf.makeInterface(st, st.get(fr, x.X), x.X.Type(), x.Type())
		fr.idx++
		return true
	case *ssa.ChangeInterface:
		v := st.get(fr, x.X)
		fr.regs[x] = &Val{T: x.Type(), S: SIface, Tm: v.Tm, Fn: v.Fn}
		fr.idx++
		return true
	case *ssa.ChangeType:
		v := st.get(fr, x.X)
		nv := *v
		nv.T = x.Type()
		fr.regs[x] = &nv
		fr.idx++
		return true
	case *ssa.Convert:
		fr.regs[x] = vf.convert(st, st.get(fr, x.X), x.X.Type(), x.Type(), in)
		fr.idx++
		return true
	case *ssa.MultiConvert:
		fr.regs[x] = st.freshVal(x.Type(), "mconv")
		fr.idx++
		return true
	case *ssa.TypeAssert:
		return vf.typeAssert(st, fr, x)
	case *ssa.Extract:
		tv := st.get(fr, x.Tuple)
		if x.Index < len(tv.Fs) {
			fr.regs[x] = tv.Fs[x.Index]
		} else {
			fr.regs[x] = st.freshVal(x.Type(), "extract")
		}
		fr.idx++
		return true
	case *ssa.Slice:
		fr.regs[x] = vf.sliceOp(st, fr, x)
		fr.idx++
		return true
	case *ssa.SliceToArrayPointer:
		fr.regs[x] = st.freshVal(x.Type(), "s2ap")
		fr.idx++
		return true
	case *ssa.Range:
		vf.guardCheck(st, fr, x.X, false, in)
		v := st.get(fr, x.X)
		it := &Val{T: x.Type(), S: "", Tm: "range", Fs: []*Val{v}}
		fr.regs[x] = it
		fr.idx++
		return true
	case *ssa.Next:
		fr.regs[x] = vf.next(st, fr, x)
		fr.idx++
		return true
	case *ssa.Send:
		ch := st.get(fr, x.Chan)
		vf.chanInvSend(st, fr, ch, st.get(fr, x.X), in, fmt.Sprintf("send#%d", vf.eng.info(fr.fn).chanOrd[in]))
		vf.chanOp(st, fr, ch, "send", in)
		fr.idx++
		return !st.dead
	case *ssa.Select:
		fr.regs[x] = vf.selectOp(st, fr, x)
		fr.idx++
		return !st.dead
	}
	st.note(fmt.Sprintf("unsupported instruction %T", in))
	if v, ok := in.(ssa.Value); ok {
		fr.regs[v] = st.freshVal(v.Type(), "unsup")
	}
	fr.idx++
	return true
}


func (vf *VerifyFunc) debugRef(st *State, fr *Frame, x *ssa.DebugRef) {
	obj := x.Object()
	if obj == nil {
		return
	}
	name := obj.Name()
	if name == "_" || name == "" {
		return
	}
	v := st.get(fr, x.X)
	if x.IsAddr {
		// x.X is the address of the variable: record lazily as an address marker
		fr.vars["&"+name] = v
		delete(fr.vars, name)
		return
	}
	fr.vars[name] = v
}

func (st *State) alloc(t types.Type, hint string, local bool) *Val {
	if hint == "" {
		hint = "new"
	}
	hint = strings.Map(func(r rune) rune {
		if (r >= 'a' && r <= 'z') || (r >= 'A' && r <= 'Z') || (r >= '0' && r <= '9') {
			return r
		}
		return '_'
	}, hint)
	r := st.newRef("ref_" + hint)
	pt := types.NewPointer(t)
	if local {
		st.protected = append(st.protected, r)
	}
	if structFields(t) != nil {
		st.storeStruct(r, t, nil)
		return &Val{T: pt, S: SInt, Tm: r}
	}
	if a, ok := t.Underlying().(*types.Array); ok {
		if isByte(a.Elem()) {
			as := heapSortFor("C:Bytes", SBytes)
			z := st.fresh("zerobytes", SBytes)
			st.assume(eq("(bytes_len "+z+")", fmt.Sprint(a.Len())))
			st.heapSet("C:Bytes", as, store(st.heapGet("C:Bytes", as), r, z))
			return &Val{T: pt, S: SInt, Tm: r}
		}
		s := sortOf(a.Elem())
		if s != "" {
			key := "E:" + s
			as := heapSortFor(key, s)
			st.heapSet(key, as, store(st.heapGet(key, as), r, "((as const (Array Int "+s+")) "+zeroOfSort(s)+")"))
		}
		return &Val{T: pt, S: SInt, Tm: r}
	}
	s := sortOf(t)
	key := "C:" + s
	as := heapSortFor(key, s)
	st.heapSet(key, as, store(st.heapGet(key, as), r, zeroOfSort(s)))
	return &Val{T: pt, S: SInt, Tm: r}
}

func (vf *VerifyFunc) derefCheck(st *State, p *Val, in ssa.Instruction) {
	if p.A != nil && p.A.Kind == "global" {
		return
	}
	base := p.Tm
	if p.A != nil && (p.A.Kind == "field" || p.A.Kind == "elem" || p.A.Kind == "bytes") {
		return // derived addresses were checked when formed
	}
	if strings.HasPrefix(base, "(fld_addr ") {
		return
	}
	if !vf.nopanic {
		// partial correctness: a nil dereference panics, so execution continues only with a non-nil pointer
		st.assume(not(eq(base, "0")))
		return
	}
	lab := "nil-deref@" + st.pos(in)
	if d := derefPath(in); d != "" {
		lab = "nil-deref/" + d // named by the expression dereferenced, not by the line (stable under unrelated edits)
	}
	st.check("nopanic", lab, "C14", "nil pointer dereference", st.pos(in), not(eq(base, "0")))
}

// writeOnceShared: the cell of a captured variable that has one store (in the declaring function) and is otherwise only
// loaded, by that function and by the closures it is bound into.
func writeOnceShared(a *ssa.Alloc) bool {
	stores := 0
	var readOnly func(v ssa.Value, depth int) bool
	readOnly = func(v ssa.Value, depth int) bool {
		if depth > 4 || v.Referrers() == nil {
			return false
		}
		for _, r := range *v.Referrers() {
			switch x := r.(type) {
			case *ssa.UnOp:
				if x.Op != token.MUL {
					return false
				}
			case *ssa.DebugRef:
			case *ssa.Store:
				if x.Addr != v || x.Val == v || depth > 0 {
					return false // stored elsewhere, or written by a closure
				}
				stores++
			case *ssa.MakeClosure:
				g, ok := x.Fn.(*ssa.Function)
				if !ok {
					return false
				}
				for i, b := range x.Bindings {
					if b == v {
						if i >= len(g.FreeVars) || !readOnly(g.FreeVars[i], depth+1) {
							return false
						}
					}
				}
			default:
				return false
			}
		}
		return true
	}
	return readOnly(a, 0) && stores <= 1
}

// guardCheck: map operations on a field declared `guarded T.field by lock` need the lock of the same object (C14: an
// unsynchronised map access racing with a writer is a fatal runtime error that no recovery interceptor contains).
func (vf *VerifyFunc) guardCheck(st *State, fr *Frame, m ssa.Value, write bool, in ssa.Instruction) {
	if len(vf.eng.cs.Guarded) == 0 || vf.fc == nil {
		return
	}
	ld, ok := m.(*ssa.UnOp)
	if !ok || ld.Op != token.MUL {
		return
	}
	fa, ok := ld.X.(*ssa.FieldAddr)
	if !ok {
		return
	}
	pt, ok := fa.X.Type().Underlying().(*types.Pointer)
	if !ok {
		return
	}
	named, ok := pt.Elem().(*types.Named)
	if !ok {
		return
	}
	sT, ok := named.Underlying().(*types.Struct)
	if !ok || fa.Field >= sT.NumFields() {
		return
	}
	for _, g := range vf.eng.cs.Guarded {
		if named.Obj().Name() != g.Type || named.Obj().Pkg() == nil || named.Obj().Pkg().Path() != g.PkgPath || sT.Field(fa.Field).Name() != g.Field {
			continue
		}
		lockIdx := -1
		for i := 0; i < sT.NumFields(); i++ {
			if sT.Field(i).Name() == g.Lock {
				lockIdx = i
			}
		}
		if lockIdx < 0 {
			continue
		}
		base := st.get(fr, fa.X)
		lkey, _ := vf.eng.fieldKey(pt.Elem(), lockIdx)
		la := st.subObj(base.Tm, lkey)
		w := sel(st.heapGet("L:w", "(Array Int Bool)"), la)
		r := "(> " + sel(st.heapGet("L:r", "(Array Int Int)"), la) + " 0)"
		goal, what := or(w, r), "read"
		if write {
			goal, what = w, "write"
		}
		st.check("guarded", g.Field+"-"+what, "C14", "map "+g.Type+"."+g.Field+" is accessed ("+what+") only while "+g.Lock+" is held: an unsynchronised access racing with a writer is a fatal runtime error", st.pos(in), goal)
	}
}

// derefPath: source-level path of the pointer an instruction dereferences (x.F.G), "" when it has no simple form.
func derefPath(in ssa.Instruction) string {
	var base ssa.Value
	switch x := in.(type) {
	case *ssa.FieldAddr:
		base = x.X
	case *ssa.UnOp:
		base = x.X
	case *ssa.Store:
		base = x.Addr
	case *ssa.IndexAddr:
		base = x.X
	default:
		return ""
	}
	return valuePath(base, 0)
}

func valuePath(v ssa.Value, depth int) string {
	if depth > 6 {
		return ""
	}
	switch x := v.(type) {
	case *ssa.Parameter:
		return x.Name()
	case *ssa.FreeVar:
		return x.Name()
	case *ssa.UnOp:
		if x.Op == token.MUL {
			if fa, ok := x.X.(*ssa.FieldAddr); ok {
				return valuePath(fa, depth+1)
			}
			if al, ok := x.X.(*ssa.Alloc); ok && al.Comment != "" {
				return al.Comment
			}
		}
	case *ssa.FieldAddr:
		p := valuePath(x.X, depth+1)
		if p == "" {
			return ""
		}
		st, ok := x.X.Type().Underlying().(*types.Pointer)
		if !ok {
			return ""
		}
		if s, ok := st.Elem().Underlying().(*types.Struct); ok && x.Field < s.NumFields() {
			return p + "." + s.Field(x.Field).Name()
		}
	case *ssa.Field:
		p := valuePath(x.X, depth+1)
		if s, ok := x.X.Type().Underlying().(*types.Struct); ok && p != "" && x.Field < s.NumFields() {
			return p + "." + s.Field(x.Field).Name()
		}
	}
	return ""
}

func (vf *VerifyFunc) doReturn(st *State, fr *Frame, rs []*Val, in ssa.Instruction) bool {
	if len(st.frames) > 1 {
		// inlined frame: pop and resume the caller
		st.frames = st.frames[:len(st.frames)-1]
		caller := st.top()
		ci := caller.block.Instrs[caller.idx]
		if caller.pendingDefer {
			caller.pendingDefer = false
			return true // stay on RunDefers
		}
		if cv, ok := ci.(*ssa.Call); ok {
			if len(rs) == 1 {
				caller.regs[cv] = rs[0]
			} else if len(rs) > 1 {
				caller.regs[cv] = &Val{T: cv.Type(), Fs: rs}
			}
		}
		caller.idx++
		return true
	}
	vf.checkPost(st, fr, rs, in)
	return false
}

var localTypesCache = map[*ssa.Function]map[string]types.Type{}

// localType: type of the source-level local `name` of fn (from its debug references), nil if there is none.
func (e *Engine) localType(fn *ssa.Function, name string) types.Type {
	e.mu.Lock()
	defer e.mu.Unlock()
	m, ok := localTypesCache[fn]
	if !ok {
		m = map[string]types.Type{}
		for _, b := range fn.Blocks {
			for _, in := range b.Instrs {
				if d, ok := in.(*ssa.DebugRef); ok {
					if obj := d.Object(); obj != nil {
						if v, isVar := obj.(*types.Var); isVar && obj.Name() != "_" {
							if v.IsField() || (v.Pkg() != nil && v.Parent() == v.Pkg().Scope()) {
								continue // fields and package-level variables are not locals of this function
							}
							if _, seen := m[obj.Name()]; !seen {
								m[obj.Name()] = obj.Type()
							}
						}
					}
				}
			}
		}
		localTypesCache[fn] = m
	}
	return m[name]
}

// ctxDerive: context.WithCancel / WithTimeout / WithDeadline return a NEW context that is done exactly when the parent
// is (at creation), and a cancel function: calling that function (directly or deferred) marks that context done
// (ghost field ctxDone). The cancel function value remembers its context (FnVal key "ctxcancel").
func (vf *VerifyFunc) ctxDerive(st *State, cc *ssa.CallCommon, args []*Val, res *Val) *Val {
	fn, ok := cc.Value.(*ssa.Function)
	if !ok || cc.IsInvoke() || len(args) == 0 || args[0].S != SIface || len(res.Fs) != 2 || res.Fs[0].S != SIface {
		return res
	}
	switch fn.String() {
	case "context.WithCancel", "context.WithTimeout", "context.WithDeadline":
	default:
		return res
	}
	g, okg := vf.eng.cs.Ghosts["ctxDone"]
	if !okg || !g.Field {
		return res
	}
	r := st.newRef("ctx")
	tag := vf.eng.typeTag(types.NewPointer(types.Typ[types.UnsafePointer])) // opaque dynamic type of the derived context
	nc := &Val{T: res.Fs[0].T, S: SIface, Tm: "(mk_iface " + fmt.Sprint(tag) + " " + r + ")"}
	key, as := "G:ctxDone", ghostFieldSort(g)
	old := st.heapGet(key, as)
	st.heapSet(key, as, store(old, "(i_val "+nc.Tm+")", sel(old, "(i_val "+args[0].Tm+")")))
	cf := *res.Fs[1]
	cf.Fn = &FnVal{Key: "ctxcancel", Self: nc}
	out := *res
	out.Fs = []*Val{nc, &cf}
	return &out
}
