package main

import (
	"fmt"
	"go/types"
	"math/big"
	"strings"
)

// Val is a symbolic value. Scalar values carry an SMT term; struct / tuple /
// array-by-value carry component values.
type Val struct {
	T  types.Type
	S  string // SMT sort; "" for composite
	Tm string
	Fs []*Val
	A  *Addr  // extra info for pointers into scalar fields / elements
	Fn *FnVal // extra info for func values
	DoneOf string // for a channel returned by (context.Context).Done(): the context's reference
	// for float values that are exact conversions of an integer term when IntGuard holds
	IntSrc   string
	IntGuard string
}

type Addr struct {
	Kind  string // field | elem | bytes
	Base  string // owning object ref / backing ref / cell holding Bytes
	Key   string // heap key for field
	Idx   string // element index (absolute)
	ElemT types.Type
}

type FnVal struct {
	Key      string // contract key when statically known (function full name or field:...)
	Self     *Val   // struct the func-field was loaded from
	Bindings []*Val
	Static   any // *ssa.Function
}

func (v *Val) String() string {
	if v == nil {
		return "<nil>"
	}
	if v.S != "" {
		return v.Tm
	}
	var s []string
	for _, f := range v.Fs {
		s = append(s, f.String())
	}
	return "{" + strings.Join(s, ", ") + "}"
}

func isByte(t types.Type) bool {
	b, ok := t.Underlying().(*types.Basic)
	return ok && (b.Kind() == types.Uint8)
}

// sortOf maps a Go type to an SMT sort, "" for composite (struct, tuple, non-byte array).
func sortOf(t types.Type) string {
	switch u := t.Underlying().(type) {
	case *types.Basic:
		switch {
		case u.Info()&types.IsBoolean != 0:
			return SBool
		case u.Info()&types.IsInteger != 0:
			return SInt
		case u.Info()&types.IsFloat != 0:
			return SReal
		case u.Info()&types.IsString != 0:
			return SStr
		case u.Kind() == types.UnsafePointer:
			return SInt
		case u.Kind() == types.UntypedNil:
			return SInt
		case u.Info()&types.IsComplex != 0:
			return SReal
		}
		return SInt
	case *types.Pointer, *types.Map, *types.Chan, *types.Signature:
		return SInt
	case *types.Slice:
		if isByte(u.Elem()) {
			return SBytes
		}
		return SSlice
	case *types.Array:
		if isByte(u.Elem()) {
			return SBytes
		}
		return ""
	case *types.Interface:
		return SIface
	case *types.Struct, *types.Tuple:
		return ""
	case *types.TypeParam:
		return SIface
	}
	return SInt
}

func intRange(t types.Type) (lo, hi *big.Int, ok bool) {
	b, isB := t.Underlying().(*types.Basic)
	if !isB || b.Info()&types.IsInteger == 0 {
		return nil, nil, false
	}
	bits := 64
	switch b.Kind() {
	case types.Int8, types.Uint8:
		bits = 8
	case types.Int16, types.Uint16:
		bits = 16
	case types.Int32, types.Uint32:
		bits = 32
	}
	if b.Info()&types.IsUnsigned != 0 {
		return big.NewInt(0), new(big.Int).Sub(pow2(bits), big.NewInt(1)), true
	}
	return new(big.Int).Neg(pow2(bits - 1)), new(big.Int).Sub(pow2(bits-1), big.NewInt(1)), true
}

// wrapInt wraps a mathematical integer term into the range of Go type t.
func wrapInt(t types.Type, term string) string {
	lo, hi, ok := intRange(t)
	if !ok {
		return term
	}
	// constant fold
	if n, isNum := parseNum(term); isNum {
		m := new(big.Int).Sub(hi, lo)
		m.Add(m, big.NewInt(1))
		r := new(big.Int).Sub(n, lo)
		r.Mod(r, m)
		r.Add(r, lo)
		return num(r)
	}
	m := new(big.Int).Sub(hi, lo)
	m.Add(m, big.NewInt(1))
	if lo.Sign() == 0 {
		return "(mod " + term + " " + m.String() + ")"
	}
	off := new(big.Int).Neg(lo)
	return "(- (mod (+ " + term + " " + off.String() + ") " + m.String() + ") " + off.String() + ")"
}

func parseNum(term string) (*big.Int, bool) {
	t := strings.TrimSpace(term)
	neg := false
	if strings.HasPrefix(t, "(- ") && strings.HasSuffix(t, ")") {
		neg = true
		t = strings.TrimSpace(t[3 : len(t)-1])
	}
	if t == "" {
		return nil, false
	}
	for _, c := range t {
		if c < '0' || c > '9' {
			return nil, false
		}
	}
	n, ok := new(big.Int).SetString(t, 10)
	if !ok {
		return nil, false
	}
	if neg {
		n.Neg(n)
	}
	return n, true
}

func rangeFact(t types.Type, term string) string {
	lo, hi, ok := intRange(t)
	if !ok {
		return "true"
	}
	if _, isNum := parseNum(term); isNum {
		return "true"
	}
	return "(and (<= " + num(lo) + " " + term + ") (<= " + term + " " + num(hi) + "))"
}

func typeKey(t types.Type) string {
	// an alias (type Index = uint32) is the same type as what it names: dynamic type tags must agree
	return types.TypeString(types.Unalias(t), nil)
}

func mkScalar(t types.Type, s, tm string) *Val { return &Val{T: t, S: s, Tm: tm} }

func boolVal(tm string) *Val { return &Val{T: types.Typ[types.Bool], S: SBool, Tm: tm} }
func intVal(tm string) *Val  { return &Val{T: types.Typ[types.Int], S: SInt, Tm: tm} }

func structFields(t types.Type) *types.Struct {
	s, _ := t.Underlying().(*types.Struct)
	return s
}

func describeType(t types.Type) string {
	if t == nil {
		return "<spec>"
	}
	return fmt.Sprint(t)
}
