package main

// Secret-flow obligations (C15): the formatting / logging sinks declared with `//@ sink <callee key prefix>` carry the
// implicit precondition "no operand is a value of a secret-bearing type" (types declared with `//@ secret <type>`).
// The precondition is checked at EVERY call site of a sink in every function of the loaded module packages (not only
// in functions under contract). It is a type-directed obligation: the static type of each boxed operand is inspected
// the way package fmt would print it (top-level pointer followed, nested pointers print as addresses, interfaces and
// containers are followed). Discharged syntactically, no solver involved.

import (
	"fmt"
	"go/types"
	"sort"
	"strings"

	"golang.org/x/tools/go/ssa"
)

func (e *Engine) isSink(key string) bool {
	for _, p := range e.cs.Sinks {
		if strings.HasPrefix(key, p) {
			return true
		}
	}
	return false
}

// secretIn reports the path through which printing a value of type t would reach a declared secret type ("" if none).
func (e *Engine) secretIn(t types.Type, top bool, seen map[types.Type]bool, depth int) string {
	if t == nil || depth > 6 {
		return ""
	}
	if seen[t] {
		return ""
	}
	seen[t] = true
	defer delete(seen, t)
	ts := types.TypeString(t, nil)
	for _, s := range e.cs.Secrets {
		if ts == s {
			return ts
		}
	}
	switch u := t.Underlying().(type) {
	case *types.Pointer:
		if !top {
			return "" // fmt prints nested pointers as addresses
		}
		if p := e.secretIn(u.Elem(), false, seen, depth+1); p != "" {
			return "*" + p
		}
	case *types.Struct:
		for i := 0; i < u.NumFields(); i++ {
			if p := e.secretIn(u.Field(i).Type(), false, seen, depth+1); p != "" {
				return ts + "." + u.Field(i).Name() + " -> " + p
			}
		}
	case *types.Slice:
		if p := e.secretIn(u.Elem(), false, seen, depth+1); p != "" {
			return "[]" + p
		}
	case *types.Array:
		if p := e.secretIn(u.Elem(), false, seen, depth+1); p != "" {
			return "[]" + p
		}
	case *types.Map:
		if p := e.secretIn(u.Elem(), false, seen, depth+1); p != "" {
			return "map -> " + p
		}
	}
	return ""
}

// boxedOperands: the static types of the values packed into the variadic `...any` argument of a call.
func boxedOperands(arg ssa.Value) []ssa.Value {
	var out []ssa.Value
	sl, ok := arg.(*ssa.Slice)
	if !ok {
		return nil
	}
	al, ok := sl.X.(*ssa.Alloc)
	if !ok {
		return nil
	}
	for _, r := range *al.Referrers() {
		ia, ok := r.(*ssa.IndexAddr)
		if !ok {
			continue
		}
		for _, r2 := range *ia.Referrers() {
			if st, ok := r2.(*ssa.Store); ok && st.Addr == ssa.Value(ia) {
				out = append(out, st.Val)
			}
		}
	}
	return out
}

func unboxed(v ssa.Value) types.Type {
	switch x := v.(type) {
	case *ssa.MakeInterface:
		return x.X.Type()
	case *ssa.ChangeInterface:
		return x.X.Type()
	}
	return v.Type()
}

func (e *Engine) secretFmtObligs() []*Oblig {
	if len(e.cs.Sinks) == 0 || len(e.cs.Secrets) == 0 {
		return nil
	}
	var keys []string
	for k := range e.funcsByKey {
		keys = append(keys, k)
	}
	sort.Strings(keys)
	var out []*Oblig
	for _, k := range keys {
		fn := e.funcsByKey[k]
		if len(fn.Blocks) == 0 {
			continue
		}
		if fn.Pkg == nil || strings.HasPrefix(fn.Pkg.Pkg.Path(), modPath+"/protobuf/") {
			continue
		}
		if pos := e.prog.Fset.Position(fn.Pos()); strings.HasSuffix(pos.Filename, "_test.go") {
			continue
		}
		fi := e.info(fn)
		for _, b := range fn.Blocks {
			for _, in := range b.Instrs {
				ci, ok := in.(ssa.CallInstruction)
				if !ok {
					continue
				}
				cc := ci.Common()
				key := e.calleeKey(cc)
				if o := e.secretEncoding(fn, k, in, cc, key); o != nil {
					out = append(out, o)
				}
				if key == "" || !e.isSink(key) {
					continue
				}
				sig := cc.Signature()
				if sig == nil || !sig.Variadic() || len(cc.Args) == 0 {
					continue
				}
				label := fi.callOrd[in]
				pos := e.prog.Fset.Position(in.Pos())
				where := fmt.Sprintf("%s:%d", trimRepo(e.repo, pos.Filename), pos.Line)
				ops := boxedOperands(cc.Args[len(cc.Args)-1])
				// non-variadic `any` / error parameters in front of the variadic one are operands too
				for i := 0; i < len(cc.Args)-1; i++ {
					if _, isIface := cc.Args[i].Type().Underlying().(*types.Interface); isIface {
						ops = append(ops, cc.Args[i])
					}
				}
				bad := ""
				for _, op := range ops {
					if p := e.secretIn(unboxed(op), true, map[types.Type]bool{}, 0); p != "" {
						bad = p
						break
					}
					if p := e.secretFieldLoad(unboxedValue(op)); p != "" {
						bad = p
						break
					}
				}
				o := &Oblig{Func: shortFuncName(k), Kind: "secretfmt", Label: fmt.Sprintf("%s#%d", label.name, label.ord), Prop: "C15",
					Src: "no operand of " + shortFuncName(key) + " is a value whose printed form contains a private key or share", Where: where, Goal: "true",
					Res: SolverResult{Status: "unsat", Solver: "syntactic"}}
				if bad != "" {
					o.Goal = "false"
					o.Res = SolverResult{Status: "sat", Solver: "syntactic", Out: "operand of secret-bearing type: " + bad}
				}
				out = append(out, o)
			}
		}
	}
	return out
}

// secretEncoding: a call that serialises a secret value (an encoder method invoked on a value of a secret type, or an
// encoder function handed one) is allowed only inside the functions declared `mayencode` (the key store / database
// mirrors); anywhere else it is how key material would get into a response, a packet or a log line.
func (e *Engine) secretEncoding(fn *ssa.Function, fnKey string, in ssa.Instruction, cc *ssa.CallCommon, key string) *Oblig {
	if len(e.cs.Encoders) == 0 {
		return nil
	}
	isSecret := func(t types.Type) bool {
		ts := types.TypeString(t, nil)
		if p, ok := t.Underlying().(*types.Pointer); ok {
			ts = types.TypeString(p.Elem(), nil)
		}
		for _, s := range e.cs.Secrets {
			if ts == s {
				return true
			}
		}
		return false
	}
	hit := ""
	if cc.IsInvoke() {
		for _, m := range e.cs.Encoders {
			if cc.Method.Name() == m && isSecret(cc.Value.Type()) {
				hit = m + " on a " + types.TypeString(cc.Value.Type(), nil)
			}
		}
	} else {
		for _, m := range e.cs.Encoders {
			if key == m {
				for _, a := range cc.Args {
					if isSecret(a.Type()) {
						hit = shortFuncName(key) + " of a " + types.TypeString(a.Type(), nil)
					}
				}
			}
		}
	}
	if hit == "" {
		return nil
	}
	allowed := false
	for _, p := range e.cs.MayEncode {
		if strings.HasPrefix(fnKey, p) {
			allowed = true
		}
	}
	label := e.info(fn).callOrd[in]
	pos := e.prog.Fset.Position(in.Pos())
	o := &Oblig{Func: shortFuncName(fnKey), Kind: "secretenc", Label: fmt.Sprintf("%s#%d", label.name, label.ord), Prop: "C15",
		Src: "a private scalar / share is serialised (" + hit + ") only inside the key-store and database mirrors", Where: fmt.Sprintf("%s:%d", trimRepo(e.repo, pos.Filename), pos.Line),
		Goal: "true", Res: SolverResult{Status: "unsat", Solver: "syntactic"}}
	if !allowed {
		o.Goal = "false"
		o.Res = SolverResult{Status: "sat", Solver: "syntactic", Out: "serialisation of key material outside the functions declared mayencode: " + hit}
	}
	return o
}

// unboxedValue: the value that was boxed into the interface operand (through MakeInterface / ChangeType / Convert).
func unboxedValue(v ssa.Value) ssa.Value {
	for i := 0; i < 8; i++ {
		switch x := v.(type) {
		case *ssa.MakeInterface:
			v = x.X
		case *ssa.ChangeType:
			v = x.X
		case *ssa.Convert:
			v = x.X
		default:
			return v
		}
	}
	return v
}

// secretFieldLoad: the operand is the value of a field declared `secretfield` (the text form of a secret kept in a TOML
// mirror), read through a pointer (load of a field address) or out of a struct value.
func (e *Engine) secretFieldLoad(v ssa.Value) string {
	if len(e.cs.SecretFields) == 0 || v == nil {
		return ""
	}
	name := func(t types.Type, idx int) string {
		if p, ok := t.Underlying().(*types.Pointer); ok {
			t = p.Elem()
		}
		st, ok := t.Underlying().(*types.Struct)
		if !ok || idx >= st.NumFields() {
			return ""
		}
		return types.TypeString(t, nil) + "." + st.Field(idx).Name()
	}
	n := ""
	switch x := v.(type) {
	case *ssa.UnOp:
		if fa, ok := x.X.(*ssa.FieldAddr); ok {
			n = name(fa.X.Type(), fa.Field)
		}
	case *ssa.Field:
		n = name(x.X.Type(), x.Field)
	}
	for _, f := range e.cs.SecretFields {
		if n == f {
			return "field " + n
		}
	}
	return ""
}
