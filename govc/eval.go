package main

import (
	"fmt"
	"go/constant"
	"go/types"
	"math/big"
	"strings"

	"golang.org/x/tools/go/ssa"
)

type evaluator struct {
	st      *State
	vf      *VerifyFunc
	env     map[string]*Val
	pkgPath string
	err     []string
	bound   map[string]*Val
	own     bool // clause of the function under verification: its not-yet-assigned locals are unconstrained
}

func (ev *evaluator) fail(f string, a ...any) *Val {
	ev.err = append(ev.err, fmt.Sprintf(f, a...))
	return &Val{S: SBool, Tm: ev.st.fresh("evalerr", SBool)}
}

func (vf *VerifyFunc) evalClause(st *State, c *Clause, env map[string]*Val, old map[string]string) string {
	pkg := ""
	if vf.fc != nil {
		pkg = vf.fc.PkgPath
	}
	save := vf.ownEval
	vf.ownEval = true
	defer func() { vf.ownEval = save }()
	return vf.evalClauseIn(st, c, env, old, pkg)
}

// evalGoals evaluates a clause into one goal per case (split clauses yield several).
func (vf *VerifyFunc) evalGoals(st *State, c *Clause, env map[string]*Val, old map[string]string) []string {
	sp, ok := c.E.(ESplit)
	if !ok {
		return []string{vf.evalClause(st, c, env, old)}
	}
	var out []string
	for k := sp.Lo; k <= sp.Hi; k++ {
		env2 := map[string]*Val{}
		for n, v := range env {
			env2[n] = v
		}
		env2[sp.Var] = intVal(fmt.Sprint(k))
		cc := *c
		cc.E = sp.Body
		out = append(out, vf.evalClause(st, &cc, env2, old))
	}
	return out
}

func (vf *VerifyFunc) evalClauseIn(st *State, c *Clause, env map[string]*Val, old map[string]string, pkgPath string) string {
	if _, isSplit := c.E.(ESplit); isSplit {
		return and(vf.evalGoals(st, c, env, old)...)
	}
	ev := &evaluator{st: st, vf: vf, env: env, pkgPath: pkgPath, own: vf.ownEval}
	vf.ownEval = false // nested evaluations (callee contracts applied while evaluating) are not the function's own
	saveOld, saveUse := st.oldHeap, st.useOld
	st.oldHeap = old
	v := ev.eval(c.E)
	vf.ownEval = ev.own
	st.oldHeap, st.useOld = saveOld, saveUse
	if len(ev.err) > 0 {
		vf.eng.contractError(fmt.Sprintf("%s:%d: %s: %s", c.File, c.Line, c.Src, strings.Join(ev.err, "; ")))
		return st.fresh("contract_error", SBool)
	}
	if v.S != SBool {
		vf.eng.contractError(fmt.Sprintf("%s:%d: clause is not boolean: %s", c.File, c.Line, c.Src))
		return st.fresh("contract_error", SBool)
	}
	return v.Tm
}

func (e *Engine) contractError(s string) {
	e.mu.Lock()
	defer e.mu.Unlock()
	if e.cerrs == nil {
		e.cerrs = map[string]bool{}
	}
	e.cerrs[s] = true
}

func (ev *evaluator) pkg() *types.Package {
	if p, ok := ev.vf.eng.tpkgs[ev.pkgPath]; ok {
		return p.Types
	}
	if ev.vf.fn != nil && ev.vf.fn.Pkg != nil {
		return ev.vf.fn.Pkg.Pkg
	}
	return nil
}

func (ev *evaluator) asRef(v *Val) string {
	switch v.S {
	case SInt:
		return v.Tm
	case SIface:
		return "(i_val " + v.Tm + ")"
	case SSlice:
		return "(s_base " + v.Tm + ")"
	}
	return v.Tm
}

func (ev *evaluator) lookupIdent(name string) *Val {
	if ev.bound != nil {
		if v, ok := ev.bound[name]; ok {
			return v
		}
	}
	if v, ok := ev.env[name]; ok {
		return v
	}
	// address-taken local variable: load through its address
	if a, ok := ev.env["&"+name]; ok {
		if pt, ok2 := a.T.Underlying().(*types.Pointer); ok2 {
			return ev.st.load(a, pt.Elem())
		}
	}
	// package-level object
	if p := ev.pkg(); p != nil {
		if obj := p.Scope().Lookup(name); obj != nil {
			return ev.objVal(obj)
		}
	}
	// a local of the function under contract that has no value on this path (declared after an early return):
	// its value is unconstrained here, so a clause can only hold through its antecedent
	if ev.own && ev.vf != nil && ev.vf.fn != nil {
		if t := ev.vf.eng.localType(ev.vf.fn, name); t != nil {
			return ev.st.freshVal(t, "undef_"+name)
		}
	}
	switch name {
	case "MaxInt64":
		return intVal(num(new(big.Int).Sub(pow2(63), bigOne)))
	case "MaxUint64":
		return intVal(num(new(big.Int).Sub(pow2(64), bigOne)))
	case "MaxUint32":
		return intVal(num(new(big.Int).Sub(pow2(32), bigOne)))
	}
	return nil
}

func (ev *evaluator) objVal(obj types.Object) *Val {
	switch o := obj.(type) {
	case *types.Const:
		return ev.constVal(o.Val(), o.Type())
	case *types.Var:
		// package-level variable
		if sp, ok := ev.vf.eng.pkgs[o.Pkg().Path()]; ok {
			if g, ok := sp.Members[o.Name()].(*ssa.Global); ok {
				a := ev.st.globalAddr(g)
				return ev.st.load(a, o.Type())
			}
		}
		// variable from a package without SSA (dependency): abstract global
		name := o.Pkg().Path() + "." + o.Name()
		a := &Val{T: types.NewPointer(o.Type()), S: SInt, Tm: fmt.Sprint(2000000 + ev.st.eng.fieldID("glob:"+name)), A: &Addr{Kind: "global", Key: name, ElemT: o.Type()}}
		return ev.st.load(a, o.Type())
	}
	return nil
}

func (ev *evaluator) constVal(c constant.Value, t types.Type) *Val {
	switch c.Kind() {
	case constant.Bool:
		return boolVal(fmt.Sprint(constant.BoolVal(c)))
	case constant.String:
		return &Val{T: t, S: SStr, Tm: ev.st.eng.strLit(constant.StringVal(c))}
	case constant.Int:
		bi, _ := new(big.Int).SetString(c.ExactString(), 10)
		if sortOf(t) == SReal {
			return &Val{T: t, S: SReal, Tm: num(bi) + ".0"}
		}
		return &Val{T: t, S: SInt, Tm: num(bi)}
	case constant.Float:
		r, ok := new(big.Rat).SetString(c.ExactString())
		if ok {
			if sortOf(t) == SInt && r.IsInt() {
				return &Val{T: t, S: SInt, Tm: num(r.Num())}
			}
			return &Val{T: t, S: SReal, Tm: ratTerm(r)}
		}
	}
	return nil
}

// fieldLoc resolves base.name to (heap key, field type, owning ref).
func (ev *evaluator) fieldLoc(base *Val, name string) (key string, ft types.Type, ref string, ok bool) {
	t := base.T
	if t == nil {
		return
	}
	ref = base.Tm
	if pt, isPtr := t.Underlying().(*types.Pointer); isPtr {
		t = pt.Elem()
	} else if structFields(t) != nil {
		return // struct by value: no location
	}
	obj, idx, _ := types.LookupFieldOrMethod(t, true, ev.pkg(), name)
	fv, isVar := obj.(*types.Var)
	if !isVar || len(idx) == 0 {
		// try without package restriction (unexported fields of other packages)
		if n, isNamed := derefNamed(t); isNamed && n.Obj().Pkg() != nil {
			obj, idx, _ = types.LookupFieldOrMethod(t, true, n.Obj().Pkg(), name)
			fv, isVar = obj.(*types.Var)
		}
		if !isVar || len(idx) == 0 {
			return
		}
	}
	_ = fv
	cur := t
	for i, ix := range idx {
		k, fty := ev.st.eng.fieldKey(cur, ix)
		if i == len(idx)-1 {
			return k, fty, ref, true
		}
		// step through embedded field
		if structFields(fty) != nil && !isPointer(fty) {
			ref = ev.st.subObj(ref, k)
			cur = fty
		} else if p, isP := fty.Underlying().(*types.Pointer); isP {
			s := sortOf(fty)
			ref = sel(ev.st.heapGet(k, heapSortFor(k, s)), ref)
			cur = p.Elem()
		} else {
			return "", nil, "", false
		}
	}
	return
}

func derefNamed(t types.Type) (*types.Named, bool) {
	if p, ok := t.(*types.Pointer); ok {
		t = p.Elem()
	}
	n, ok := t.(*types.Named)
	return n, ok
}

func isPointer(t types.Type) bool {
	_, ok := t.Underlying().(*types.Pointer)
	return ok
}

func (ev *evaluator) selField(base *Val, name string) *Val {
	// struct by value
	if base.T != nil && structFields(base.T) != nil && !isPointer(base.T) && base.S == "" {
		s := structFields(base.T)
		for i := 0; i < s.NumFields(); i++ {
			if s.Field(i).Name() == name && i < len(base.Fs) {
				return base.Fs[i]
			}
		}
		// promoted through embedded struct values
		for i := 0; i < s.NumFields(); i++ {
			if s.Field(i).Embedded() && i < len(base.Fs) {
				if r := ev.selFieldQuiet(base.Fs[i], name); r != nil {
					return r
				}
			}
		}
		return ev.fail("no field %s in %s", name, describeType(base.T))
	}
	if base.S == SIface {
		return ev.fail("field %s selected on interface value (use a type assertion helper)", name)
	}
	key, ft, ref, ok := ev.fieldLoc(base, name)
	if !ok {
		return ev.fail("cannot resolve field %s on %s", name, describeType(base.T))
	}
	if structFields(ft) != nil && !isPointer(ft) {
		return ev.st.loadStruct(ev.st.subObj(ref, key), ft)
	}
	s := sortOf(ft)
	if s == "" {
		return &Val{T: ft, S: "", Tm: ev.st.subObj(ref, key)}
	}
	h := ev.st.heapGet(key, heapSortFor(key, s))
	return &Val{T: ft, S: s, Tm: sel(h, ref)}
}

func (ev *evaluator) selFieldQuiet(base *Val, name string) *Val {
	save := ev.err
	r := ev.selField(base, name)
	if len(ev.err) > len(save) {
		ev.err = save
		return nil
	}
	return r
}

func (ev *evaluator) eval(e Expr) *Val {
	st := ev.st
	switch x := e.(type) {
	case ENum:
		if strings.Contains(x.V, ".") {
			r, ok := new(big.Rat).SetString(x.V)
			if !ok {
				return ev.fail("bad number %s", x.V)
			}
			return &Val{S: SReal, Tm: ratTerm(r)}
		}
		n, ok := new(big.Int).SetString(x.V, 0)
		if !ok {
			return ev.fail("bad number %s", x.V)
		}
		return intVal(num(n))
	case EBool:
		return boolVal(fmt.Sprint(x.V))
	case ENil:
		return &Val{S: SInt, Tm: "0"}
	case EStr:
		return &Val{T: types.Typ[types.String], S: SStr, Tm: st.eng.strLit(x.V)}
	case EIdent:
		if v := ev.lookupIdent(x.Name); v != nil {
			return v
		}
		return ev.fail("unknown identifier %s", x.Name)
	case ESel:
		// package-qualified name?
		if id, ok := x.X.(EIdent); ok && ev.lookupIdentQuiet(id.Name) == nil {
			if p := ev.pkg(); p != nil {
				for _, imp := range p.Imports() {
					if imp.Name() == id.Name {
						if obj := imp.Scope().Lookup(x.Name); obj != nil {
							if v := ev.objVal(obj); v != nil {
								return v
							}
						}
					}
				}
			}
			return ev.fail("unknown identifier %s", id.Name)
		}
		base := ev.eval(x.X)
		return ev.selField(base, x.Name)
	case EUnary:
		a := ev.eval(x.X)
		switch x.Op {
		case "!":
			return boolVal(not(a.Tm))
		case "-":
			if a.S == SReal {
				return &Val{S: SReal, Tm: "(- " + a.Tm + ")"}
			}
			return intVal("(- " + a.Tm + ")")
		}
	case EBinary:
		return ev.binary(x)
	case EQuant:
		saved := ev.bound
		nb := map[string]*Val{}
		for k, v := range saved {
			nb[k] = v
		}
		var decl []string
		var guards []string
		for _, q := range x.Vars {
			s := specSort(q.Type)
			n := sym("q_" + q.Name)
			decl = append(decl, "("+n+" "+s+")")
			qv := &Val{S: s, Tm: n}
			if strings.HasPrefix(q.Type, "*") {
				qv.T = ev.resolveType(q.Type)
				if qv.T == nil {
					return ev.fail("quantifier: unknown type %s", q.Type)
				}
			}
			nb[q.Name] = qv
			switch q.Type {
			case "uint64":
				guards = append(guards, "(and (<= 0 "+n+") (<= "+n+" 18446744073709551615))")
			case "uint32":
				guards = append(guards, "(and (<= 0 "+n+") (<= "+n+" 4294967295))")
			case "int64":
				guards = append(guards, "(and (<= (- 9223372036854775808) "+n+") (<= "+n+" 9223372036854775807))")
			}
		}
		ev.bound = nb
		// assumptions produced while evaluating the body (range facts of heap reads etc.) must not leak bound variables
		na := len(st.assumes)
		body := ev.eval(x.Body)
		var pats []string
		for _, te := range x.Triggers {
			pats = append(pats, ev.eval(te).Tm)
		}
		if len(st.assumes) > na {
			// keep the side facts that do not mention a bound variable (e.g. "this sentinel error is not nil", recorded
			// once per path when the sentinel is first read)
			var keep []string
			for _, a := range st.assumes[na:] {
				mentions := false
				for _, qv := range nb {
					if strings.Contains(a, qv.Tm) {
						mentions = true
						break
					}
				}
				if !mentions {
					keep = append(keep, a)
				}
			}
			st.assumes = append(st.assumes[:na], keep...)
		}
		ev.bound = saved
		g := and(guards...)
		wrap := func(b string) string {
			if len(pats) == 0 {
				return b
			}
			return "(! " + b + " :pattern (" + strings.Join(pats, " ") + "))"
		}
		if x.Forall {
			return boolVal("(forall (" + strings.Join(decl, " ") + ") " + wrap(implies(g, body.Tm)) + ")")
		}
		return boolVal("(exists (" + strings.Join(decl, " ") + ") " + wrap(and(g, body.Tm)) + ")")
	case EIndex:
		base := ev.eval(x.X)
		idx := ev.eval(x.I)
		switch base.S {
		case SBytes:
			return intVal("(bytes_at " + base.Tm + " " + idx.Tm + ")")
		case SStr:
			return intVal("(str_at " + base.Tm + " " + idx.Tm + ")")
		case SSlice:
			et := base.T.Underlying().(*types.Slice).Elem()
			es := sortOf(et)
			abs := "(sidx (s_off " + base.Tm + ") " + idx.Tm + ")"
			if es == "" {
				return &Val{T: types.NewPointer(et), S: SInt, Tm: "(fld_addr (s_base " + base.Tm + ") (- (- 1) " + abs + "))"}
			}
			h := st.heapGet("E:"+es, heapSortFor("E:"+es, es))
			return &Val{T: et, S: es, Tm: sel(sel(h, "(s_base "+base.Tm+")"), abs)}
		case SInt:
			if base.T != nil {
				if mt, ok := base.T.Underlying().(*types.Map); ok {
					_, _, vk, vas, _, _, vs := mapHeap(base.T)
					k := st.coerce(idx, mt.Key())
					val := sel(sel(st.heapGet(vk, vas), base.Tm), k.Tm)
					return &Val{T: mt.Elem(), S: vs, Tm: val}
				}
			}
		}
		return ev.fail("cannot index %s", describeType(base.T))
	case ECall:
		return ev.call(x)
	}
	return ev.fail("cannot evaluate %s", e.String())
}

func (ev *evaluator) lookupIdentQuiet(name string) *Val { return ev.lookupIdent(name) }

func (ev *evaluator) binary(x EBinary) *Val {
	st := ev.st
	a := ev.eval(x.X)
	// short forms on booleans first (b may mention things only valid under a)
	b := ev.eval(x.Y)
	switch x.Op {
	case "==>":
		return boolVal(implies(a.Tm, b.Tm))
	case "<==>":
		return boolVal(eq(a.Tm, b.Tm))
	case "&&":
		return boolVal(and(a.Tm, b.Tm))
	case "||":
		return boolVal(or(a.Tm, b.Tm))
	case "==":
		return boolVal(st.valEq(a, b))
	case "!=":
		return boolVal(not(st.valEq(a, b)))
	}
	if a.S == SStr && b.S == SStr && x.Op == "+" {
		return &Val{T: a.T, S: SStr, Tm: "(str_cat " + a.Tm + " " + b.Tm + ")"}
	}
	if a.S == SInt && b.S == SReal {
		a = &Val{S: SReal, Tm: "(to_real " + a.Tm + ")"}
	}
	if a.S == SReal && b.S == SInt {
		b = &Val{S: SReal, Tm: "(to_real " + b.Tm + ")"}
	}
	mk := func(tm string) *Val {
		if a.S == SReal {
			return &Val{S: SReal, Tm: tm}
		}
		return intVal(tm)
	}
	if an, ok := parseNum(a.Tm); ok && a.S == SInt {
		if bn, ok2 := parseNum(b.Tm); ok2 && b.S == SInt {
			switch x.Op {
			case "+":
				return intVal(num(new(big.Int).Add(an, bn)))
			case "-":
				return intVal(num(new(big.Int).Sub(an, bn)))
			case "*":
				return intVal(num(new(big.Int).Mul(an, bn)))
			case ">>":
				if bn.IsInt64() && bn.Int64() >= 0 && bn.Int64() < 200 {
					return intVal(num(new(big.Int).Rsh(an, uint(bn.Int64()))))
				}
			case "<<":
				if bn.IsInt64() && bn.Int64() >= 0 && bn.Int64() < 200 {
					return intVal(num(new(big.Int).Lsh(an, uint(bn.Int64()))))
				}
			}
		}
	}
	switch x.Op {
	case "<", "<=", ">", ">=":
		return boolVal("(" + x.Op + " " + a.Tm + " " + b.Tm + ")")
	case "+", "-", "*":
		return mk("(" + x.Op + " " + a.Tm + " " + b.Tm + ")")
	case "/":
		if a.S == SReal {
			return mk("(/ " + a.Tm + " " + b.Tm + ")")
		}
		return mk("(div " + a.Tm + " " + b.Tm + ")") // mathematical (floor) division on spec integers
	case "%":
		return mk("(mod " + a.Tm + " " + b.Tm + ")")
	case "<<":
		return mk(shiftTerm(a.Tm, b.Tm, true))
	case ">>":
		return mk(shiftTerm(a.Tm, b.Tm, false))
	}
	return ev.fail("bad operator %s", x.Op)
}

func (ev *evaluator) call(x ECall) *Val {
	st := ev.st
	eng := st.eng
	if i := strings.LastIndex(x.Fun, "."); i > 0 {
		// ghost functions and predicates live in one global namespace: a package qualifier is documentation only
		base := x.Fun[i+1:]
		if _, ok := eng.cs.Ghosts[base]; ok {
			x.Fun = base
		} else if _, ok := eng.cs.Preds[base]; ok {
			x.Fun = base
		}
	}
	switch x.Fun {
	case "old":
		if len(x.Args) != 1 {
			return ev.fail("old takes one argument")
		}
		save := st.useOld
		st.useOld = true
		v := ev.eval(x.Args[0])
		st.useOld = save
		return v
	case "len":
		a := ev.eval(x.Args[0])
		switch a.S {
		case SBytes:
			return intVal("(bytes_len " + a.Tm + ")")
		case SStr:
			return intVal("(str_len " + a.Tm + ")")
		case SSlice:
			return intVal("(s_len " + a.Tm + ")")
		case SInt:
			if a.T != nil {
				if _, ok := a.T.Underlying().(*types.Map); ok {
					dk, das, _, _, lk, ks, _ := mapHeap(a.T)
					l := sel(st.heapGet(lk, "(Array Int Int)"), a.Tm)
					if ev.bound == nil && ks != "" {
						dom := st.fresh("dom", "(Array "+ks+" Bool)")
						st.assume(eq(dom, sel(st.heapGet(dk, das), a.Tm)))
						st.assume("(and (>= " + l + " 0) (forall ((mk " + ks + ")) (! (=> (select " + dom + " mk) (>= " + l + " 1)) :pattern ((select " + dom + " mk)))))")
					}
					return intVal(ite(eq(a.Tm, "0"), "0", l))
				}
			}
		}
		return ev.fail("len of %s", describeType(a.T))
	case "cap":
		a := ev.eval(x.Args[0])
		if a.S == SSlice {
			return intVal("(s_cap " + a.Tm + ")")
		}
		if a.S == SInt {
			return intVal("(chan_cap " + a.Tm + ")")
		}
	case "is":
		a := ev.eval(x.Args[0])
		b := ev.eval(x.Args[1])
		return boolVal(or(eq(a.Tm, b.Tm), and(not(eq(a.Tm, "iface_nil")), "(wraps "+a.Tm+" "+b.Tm+")")))
	case "bytesEq":
		a := ev.eval(x.Args[0])
		b := ev.eval(x.Args[1])
		a, b = ev.toBytes(a), ev.toBytes(b)
		return boolVal("(bytes_eq " + a.Tm + " " + b.Tm + ")")
	case "ite":
		c := ev.eval(x.Args[0])
		a := ev.eval(x.Args[1])
		b := ev.eval(x.Args[2])
		if a.S == SInt && b.S == SReal {
			a = &Val{S: SReal, Tm: "(to_real " + a.Tm + ")"}
		}
		if a.S == SReal && b.S == SInt {
			b = &Val{S: SReal, Tm: "(to_real " + b.Tm + ")"}
		}
		if a.S != b.S && a.S == SInt && a.Tm == "0" {
			a = &Val{T: b.T, S: b.S, Tm: zeroOfSort(b.S)}
		}
		if a.S != b.S && b.S == SInt && b.Tm == "0" {
			b = &Val{T: a.T, S: a.S, Tm: zeroOfSort(a.S)}
		}
		t := a.T
		if t == nil {
			t = b.T
		}
		return &Val{T: t, S: a.S, Tm: ite(c.Tm, a.Tm, b.Tm)}
	case "has": // has(m, k): key present in Go map
		m := ev.eval(x.Args[0])
		k := ev.eval(x.Args[1])
		if m.T != nil {
			if mt, ok := m.T.Underlying().(*types.Map); ok {
				dk, das, _, _, _, _, _ := mapHeap(m.T)
				k = st.coerce(k, mt.Key())
				return boolVal(and(not(eq(m.Tm, "0")), sel(sel(st.heapGet(dk, das), m.Tm), k.Tm)))
			}
		}
		return ev.fail("has() on non-map")
	case "held":
		m := ev.eval(x.Args[0])
		return boolVal(sel(st.heapGet("L:w", "(Array Int Bool)"), ev.addrOf(m)))
	case "rheld":
		m := ev.eval(x.Args[0])
		return boolVal("(> " + sel(st.heapGet("L:r", "(Array Int Int)"), ev.addrOf(m)) + " 0)")
	case "closed": // closed(ch): close(ch) has been executed
		c := ev.eval(x.Args[0])
		return boolVal(sel(st.heapGet("CH:closed", "(Array Int Bool)"), c.Tm))
	case "rcount":
		m := ev.eval(x.Args[0])
		return intVal(sel(st.heapGet("L:r", "(Array Int Int)"), ev.addrOf(m)))
	case "onlyRLocked": // onlyRLocked(m): m is read-locked exactly once and no other mutex is read-locked
		m := ev.eval(x.Args[0])
		return boolVal(eq(st.heapGet("L:r", "(Array Int Int)"), store("((as const (Array Int Int)) 0)", ev.addrOf(m), "1")))
	case "nowlocks":
		return boolVal(eq(st.heapGet("L:w", "(Array Int Bool)"), "((as const (Array Int Bool)) false)"))
	case "norlocks":
		return boolVal(eq(st.heapGet("L:r", "(Array Int Int)"), "((as const (Array Int Int)) 0)"))
	case "real":
		a := ev.eval(x.Args[0])
		if a.S == SReal {
			return a
		}
		return &Val{S: SReal, Tm: "(to_real " + a.Tm + ")"}
	case "floor":
		a := ev.eval(x.Args[0])
		return intVal("(to_int " + a.Tm + ")")
	case "addr": // addr(x): address of the address-taken local x
		if id, ok := x.Args[0].(EIdent); ok {
			if a, ok2 := ev.env["&"+id.Name]; ok2 {
				return a
			}
		}
		if sl, ok := x.Args[0].(ESel); ok {
			// addr(p.f): address of a struct-valued field of the object p points to (the sub-object go/ssa reaches by FieldAddr)
			base := ev.eval(sl.X)
			if base != nil && base.T != nil {
				if key, ft, ref, ok2 := ev.fieldLoc(base, sl.Name); ok2 && structFields(ft) != nil {
					return &Val{T: types.NewPointer(ft), S: SInt, Tm: st.subObj(ref, key)}
				}
			}
			return ev.fail("addr(p.f): f is not a struct-valued field")
		}
		return ev.fail("addr(x): x is not an address-taken local on this path")
	case "isnew": // isnew(x): x refers to an object allocated by this function activation (or is nil)
		a := ev.eval(x.Args[0])
		r := ev.asRef(a)
		return boolVal(or(eq(r, "0"), "(> (obj_root "+r+") "+ev.vf.entryFrontier+")"))
	case "fieldwise":
		// fieldwise(dst, src, "Skipped,Fields"): every field of src's struct type that is not listed as skipped has a
		// field of the same name and type in dst, and the two are equal. A field of src that is neither comparable
		// nor listed is a contract error: the mirror is not covered for all fields.
		if len(x.Args) < 2 {
			return ev.fail("fieldwise(dst, src [, \"skipped,fields\"])")
		}
		skip := map[string]bool{}
		if len(x.Args) == 3 {
			sk, ok := x.Args[2].(EStr)
			if !ok {
				return ev.fail("fieldwise: third argument must be a string of field names")
			}
			for _, f := range strings.Split(sk.V, ",") {
				if f = strings.TrimSpace(f); f != "" {
					skip[f] = true
				}
			}
		}
		dv, sv := ev.eval(x.Args[0]), ev.eval(x.Args[1])
		if dv == nil || sv == nil || dv.T == nil || sv.T == nil {
			return ev.fail("fieldwise: untyped operand")
		}
		stOf := func(t types.Type) *types.Struct {
			if p, ok := t.Underlying().(*types.Pointer); ok {
				t = p.Elem()
			}
			st, _ := t.Underlying().(*types.Struct)
			return st
		}
		ds, ss := stOf(dv.T), stOf(sv.T)
		if ds == nil || ss == nil {
			return ev.fail("fieldwise: operands must be structs or pointers to structs")
		}
		dfields := map[string]types.Type{}
		for i := 0; i < ds.NumFields(); i++ {
			dfields[ds.Field(i).Name()] = ds.Field(i).Type()
		}
		used := map[string]bool{}
		var cs []string
		for i := 0; i < ss.NumFields(); i++ {
			f := ss.Field(i)
			if skip[f.Name()] {
				used[f.Name()] = true
				continue
			}
			dt, ok := dfields[f.Name()]
			if !ok {
				return ev.fail("fieldwise: field %s of the source has no counterpart in the destination and is not listed as skipped", f.Name())
			}
			if !types.Identical(dt, f.Type()) || sortOf(f.Type()) == "" {
				return ev.fail("fieldwise: field %s cannot be compared directly (type %s vs %s) and is not listed as skipped", f.Name(), f.Type(), dt)
			}
			c := ev.eval(EBinary{Op: "==", X: ESel{X: x.Args[0], Name: f.Name()}, Y: ESel{X: x.Args[1], Name: f.Name()}})
			if c == nil || c.S != SBool {
				return ev.fail("fieldwise: cannot compare field %s", f.Name())
			}
			cs = append(cs, c.Tm)
		}
		for n := range skip {
			if !used[n] {
				return ev.fail("fieldwise: skipped field %s does not exist in the source", n)
			}
		}
		return boolVal(and(cs...))
	case "isnil":
		a := ev.eval(x.Args[0])
		return boolVal(eq(a.Tm, zeroOfSort(a.S)))
	case "typeis": // typeis(ifaceval, "pkg.T") / pointer: "*pkg.T"
		a := ev.eval(x.Args[0])
		s, ok := x.Args[1].(EStr)
		if !ok || a.S != SIface {
			return ev.fail("typeis(iface, \"type\")")
		}
		t := ev.resolveType(s.V)
		if t == nil {
			return ev.fail("unknown type %s", s.V)
		}
		return boolVal(eq("(i_tag "+a.Tm+")", fmt.Sprint(eng.typeTag(t))))
	case "as": // as(ifaceval, "*pkg.T") -> pointer payload typed
		a := ev.eval(x.Args[0])
		s, ok := x.Args[1].(EStr)
		if !ok || a.S != SIface {
			return ev.fail("as(iface, \"type\")")
		}
		t := ev.resolveType(s.V)
		if t == nil {
			return ev.fail("unknown type %s", s.V)
		}
		return &Val{T: t, S: SInt, Tm: "(i_val " + a.Tm + ")"}
	case "ref":
		a := ev.eval(x.Args[0])
		return intVal(ev.asRef(a))
	case "strBytes": // []byte(s)
		a := ev.eval(x.Args[0])
		if a.S != SStr {
			return ev.fail("strBytes of non-string")
		}
		return &Val{T: types.NewSlice(types.Universe.Lookup("byte").Type()), S: SBytes, Tm: "(bytes_of_str " + a.Tm + ")"}
	case "asSlice": // asSlice(ifaceval, "[]T"): the slice boxed in an interface value
		a := ev.eval(x.Args[0])
		sv, ok := x.Args[1].(EStr)
		if !ok || a.S != SIface || !strings.HasPrefix(sv.V, "[]") {
			return ev.fail("asSlice(iface, \"[]T\")")
		}
		et := ev.resolveType(strings.TrimPrefix(sv.V, "[]"))
		if et == nil {
			return ev.fail("unknown type %s", sv.V)
		}
		return &Val{T: types.NewSlice(et), S: SSlice, Tm: "(unbox_Slice (i_val " + a.Tm + "))"}
	}
	// predicate (macro)
	if p, ok := eng.cs.Preds[x.Fun]; ok {
		if len(p.Params) != len(x.Args) {
			return ev.fail("pred %s: wrong number of arguments", x.Fun)
		}
		nb := map[string]*Val{}
		for i, q := range p.Params {
			nb[q.Name] = ev.eval(x.Args[i])
		}
		sub := &evaluator{st: st, vf: ev.vf, env: nb, pkgPath: p.PkgPath, bound: nil}
		if ev.bound != nil {
			// keep quantified variables visible through argument values only
		}
		r := sub.eval(p.Body)
		ev.err = append(ev.err, sub.err...)
		if ev.bound == nil && r.S != "" && r.S != SBool && len(r.Tm) > 60 {
			// memoised naming keeps repeated macro expansions small
			name := "m!" + x.Fun + "!" + scriptHash(r.Tm)
			if !st.declSet[name] {
				st.declare(name, r.S)
				st.assume(eq(sym(name), r.Tm))
			}
			nr := *r
			nr.Tm = sym(name)
			return &nr
		}
		return r
	}
	// ghost function / ghost field
	if g, ok := eng.cs.Ghosts[x.Fun]; ok {
		if len(g.Params) != len(x.Args) {
			return ev.fail("ghost %s: wrong number of arguments", x.Fun)
		}
		var as []string
		for i, a := range x.Args {
			v := ev.eval(a)
			as = append(as, ev.toSort(v, specSort(g.Params[i])))
		}
		rs := specSort(g.Result)
		var rt types.Type
		if strings.HasPrefix(g.Result, "*") {
			sub := &evaluator{st: st, vf: ev.vf, env: nil, pkgPath: g.PkgPath}
			rt = sub.resolveType(g.Result)
			if rt == nil {
				return ev.fail("ghost %s: unknown result type %s", x.Fun, g.Result)
			}
		}
		if g.Field {
			key := "G:" + x.Fun
			t := st.heapGet(key, ghostFieldSort(g))
			for _, a := range as {
				t = sel(t, a)
			}
			return &Val{T: rt, S: rs, Tm: t}
		}
		if len(as) == 0 {
			return &Val{T: rt, S: rs, Tm: sym("g_" + x.Fun)}
		}
		return &Val{T: rt, S: rs, Tm: "(" + sym("g_"+x.Fun) + " " + strings.Join(as, " ") + ")"}
	}
	return ev.fail("unknown function %s", x.Fun)
}

func (ev *evaluator) toBytes(v *Val) *Val {
	if v.S == SInt && v.Tm == "0" {
		return &Val{S: SBytes, Tm: "bytes_nil"}
	}
	return v
}

func (ev *evaluator) toSort(v *Val, s string) string {
	if v.S == s {
		return v.Tm
	}
	if s == SInt {
		return ev.asRef(v)
	}
	if v.S == SInt && v.Tm == "0" {
		return zeroOfSort(s)
	}
	if s == SReal && v.S == SInt {
		return "(to_real " + v.Tm + ")"
	}
	ev.fail("argument of sort %s where %s expected", v.S, s)
	return v.Tm
}

// addrOf: identity of a mutex-like field value (struct by value inside an object).
func (ev *evaluator) addrOf(v *Val) string {
	return v.Tm
}

func (ev *evaluator) resolveType(s string) types.Type {
	ptr := strings.HasPrefix(s, "*")
	s = strings.TrimPrefix(s, "*")
	if !strings.Contains(s, ".") {
		if obj := types.Universe.Lookup(s); obj != nil {
			if tn, ok := obj.(*types.TypeName); ok {
				if ptr {
					return types.NewPointer(tn.Type())
				}
				return tn.Type()
			}
		}
	}
	var pkg *types.Package
	name := s
	if i := strings.LastIndex(s, "."); i >= 0 {
		q := s[:i]
		name = s[i+1:]
		if tp, ok := ev.vf.eng.tpkgs[q]; ok {
			pkg = tp.Types
		} else if p := ev.pkg(); p != nil {
			for _, imp := range p.Imports() {
				if imp.Name() == q || imp.Path() == q {
					pkg = imp
				}
			}
		}
	} else {
		pkg = ev.pkg()
	}
	if pkg == nil {
		return nil
	}
	obj := pkg.Scope().Lookup(name)
	if obj == nil {
		return nil
	}
	t := obj.Type()
	if ptr {
		return types.NewPointer(t)
	}
	return t
}

func (vf *VerifyFunc) addPkgEnv(env map[string]*Val, pkgPath string) {}

// ---- function entry / exit --------------------------------------------

func (vf *VerifyFunc) checkPost(st *State, fr *Frame, rs []*Val, in ssa.Instruction) {
	if vf.fc == nil {
		return
	}
	env := map[string]*Val{}
	for k, v := range fr.vars {
		env[k] = v // local variables (by source name) are visible in postconditions
	}
	for k, v := range vf.env {
		env[k] = v
	}
	for i, r := range rs {
		if i < len(vf.fc.Results) {
			env[vf.fc.Results[i]] = r
		}
		env[fmt.Sprintf("result%d", i)] = r
	}
	if len(rs) == 1 {
		env["result"] = rs[0]
	}
	where := st.pos(in)
	vf.canary(st)
	for i, c := range vf.fc.Ensures {
		if c.Def {
			continue
		}
		t := vf.evalClause(st, c, env, nil)
		st.check("post", lbl(c, fmt.Sprint(i)), c.Prop, c.Src, where, t)
	}
	if vf.fc.HasMod && !vf.fc.Flags["trustedframe"] {
		vf.checkFrame(st, where, "frame")
	}
	if vf.lockcheck {
		// every lock acquired on this path is released at exit (unless the contract says it stays held)
		seen := map[string]bool{}
		for _, l := range st.locked {
			if seen[l.addr] {
				continue
			}
			seen[l.addr] = true
			w := sel(st.heapGet("L:w", "(Array Int Bool)"), l.addr)
			r := sel(st.heapGet("L:r", "(Array Int Int)"), l.addr)
			w0 := sel(sym(st.initialHeapName("L:w", 0)), l.addr)
			r0 := sel(sym(st.initialHeapName("L:r", 0)), l.addr)
			st.declare(st.initialHeapName("L:w", 0), "(Array Int Bool)")
			st.declare(st.initialHeapName("L:r", 0), "(Array Int Int)")
			st.check("lock", "released-at-exit@"+l.desc, "C14", "lock acquired at "+l.desc+" is still held on return", where, and(eq(w, w0), eq(r, r0)))
		}
	}
}

// frameAllowed evaluates the modifies clause (in the entry state) into per-heap-key allowed references.
func (vf *VerifyFunc) frameAllowed(st *State) (allowed map[string][]string, wild map[string]bool, everything bool) {
	allowed = map[string][]string{}
	wild = map[string]bool{}
	evalOld := func(x Expr) *Val {
		ev := &evaluator{st: st, vf: vf, env: vf.env, pkgPath: vf.fc.PkgPath}
		save := st.useOld
		saveOH := st.oldHeap
		st.useOld = true
		st.oldHeap = nil
		r := ev.eval(x)
		st.useOld = save
		st.oldHeap = saveOH
		return r
	}
	for _, m := range vf.fc.Modifies {
		switch x := m.E.(type) {
		case EIdent:
			if x.Name == "everything" {
				return nil, nil, true
			}
		case ESel:
			ev := &evaluator{st: st, vf: vf, env: vf.env, pkgPath: vf.fc.PkgPath}
			save := st.useOld
			saveOH := st.oldHeap
			st.useOld = true
			st.oldHeap = nil
			base := ev.eval(x.X)
			key, _, ref, ok := ev.fieldLoc(base, x.Name)
			st.useOld = save
			st.oldHeap = saveOH
			if ok {
				allowed[key] = append(allowed[key], ref)
			}
		case ECall:
			if g, ok := vf.eng.cs.Ghosts[x.Fun]; ok && g.Field {
				key := "G:" + x.Fun
				if id, isId := x.Args[0].(EIdent); isId && id.Name == "all" {
					wild[key] = true
					continue
				}
				ev := &evaluator{st: st, vf: vf}
				allowed[key] = append(allowed[key], ev.toSort(evalOld(x.Args[0]), specSort(g.Params[0])))
			}
			if x.Fun == "heap" {
				if s, ok := x.Args[0].(EStr); ok {
					wild[s.V] = true
				}
			}
			if x.Fun == "mapof" {
				r := evalOld(x.Args[0])
				if r.T != nil {
					if _, isMap := r.T.Underlying().(*types.Map); isMap {
						dk, _, vk, _, lk, _, _ := mapHeap(r.T)
						allowed[dk] = append(allowed[dk], r.Tm)
						allowed[vk] = append(allowed[vk], r.Tm)
						allowed[lk] = append(allowed[lk], r.Tm)
					}
				}
			}
			if x.Fun == "elems" {
				r := evalOld(x.Args[0])
				if r.S == SSlice {
					es := sortOf(r.T.Underlying().(*types.Slice).Elem())
					allowed["E:"+es] = append(allowed["E:"+es], "(s_base "+r.Tm+")")
				}
			}
		}
	}
	return allowed, wild, false
}

// frameGoal: objects that existed at entry (root at or below the entry allocation frontier) and are not listed
// in modifies hold the same value in heap array cur as in the entry heap.
func (vf *VerifyFunc) frameGoal(st *State, k, cur string, allowed []string) string {
	n0 := st.initialHeapName(k, 0)
	st.declare(n0, st.eng.heapSort(k))
	if strings.HasPrefix(k, "G:") {
		if g, ok := vf.eng.cs.Ghosts[strings.TrimPrefix(k, "G:")]; ok && specSort(g.Params[0]) != SInt {
			// ghost state keyed by a value (e.g. a path name): every key outside the modifies clause keeps its entry
			var ex []string
			for _, r := range allowed {
				ex = append(ex, not(eq("fr_k", r)))
			}
			return "(forall ((fr_k " + specSort(g.Params[0]) + ")) (! (=> " + and(ex...) + " (= (select " + cur + " fr_k) (select " + sym(n0) + " fr_k))) :pattern ((select " + cur + " fr_k))))"
		}
	}
	// the null reference has no fields: a callee's "modifies x.f.g" with x.f == nil names no location
	ex := []string{"(<= (obj_root fr_r) " + vf.entryFrontier + ")", "(not (= fr_r 0))"}
	for _, r := range allowed {
		ex = append(ex, not(eq("fr_r", r)))
	}
	return "(forall ((fr_r Int)) (! (=> " + and(ex...) + " (= (select " + cur + " fr_r) (select " + sym(n0) + " fr_r))) :pattern ((select " + cur + " fr_r))))"
}

// checkFrame: every heap array that changed did so only at locations listed in modifies.
func (vf *VerifyFunc) checkFrame(st *State, where, kind string) {
	allowed, wild, everything := vf.frameAllowed(st)
	if everything {
		return
	}
	var keys []string
	for k := range st.heap {
		keys = append(keys, k)
	}
	sortStrings(keys)
	for _, k := range keys {
		if strings.HasPrefix(k, "L:") || strings.HasPrefix(k, "V:err:") || wild[k] || k == "G:ctxDone" {
			// G:ctxDone is maintained by the verifier itself (set at a receive from ctx.Done(), only ever read as
			// `done ==> Err() != nil`): a caller that keeps a stale value loses information, never gains any
			continue
		}
		n0 := st.initialHeapName(k, 0)
		cur := st.heap[k]
		if cur == sym(n0) {
			continue
		}
		if strings.HasPrefix(k, "V:") {
			st.declare(n0, st.eng.heapSort(k))
			st.check(kind, k, "", "package variable "+k+" not in modifies", where, eq(cur, sym(n0)))
			continue
		}
		st.check(kind, k, "", "only locations in modifies change ("+k+")", where, vf.frameGoal(st, k, cur, allowed[k]))
	}
}

// assumeLoopFrame: after a loop header havoc the frame condition (an implicit loop invariant, re-checked at every
// back edge and return) is assumed for the havocked heap arrays.
func (vf *VerifyFunc) assumeLoopFrame(st *State, keys []string) {
	if vf.fc == nil || !vf.fc.HasMod || len(st.frames) != 1 {
		return
	}
	allowed, wild, everything := vf.frameAllowed(st)
	if everything {
		return
	}
	for _, k := range keys {
		if strings.HasPrefix(k, "L:") || strings.HasPrefix(k, "V:") || wild[k] || k == "G:ctxDone" {
			continue
		}
		cur, ok := st.heap[k]
		if !ok {
			continue
		}
		st.assume(vf.frameGoal(st, k, cur, allowed[k]))
	}
}

func sortStrings(s []string) {
	for i := 1; i < len(s); i++ {
		for j := i; j > 0 && s[j] < s[j-1]; j-- {
			s[j], s[j-1] = s[j-1], s[j]
		}
	}
}
