package main

import (
	"fmt"
	"go/types"
	"sort"
	"strings"
	"sync"
	"time"

	"golang.org/x/tools/go/ssa"
)

type FuncResult struct {
	Key       string
	Short     string
	Obligs    []*Oblig
	Notes     map[string]int
	Paths     int
	Truncated bool
	Missing   bool
	Errors    []string
	Kind      string
	WallMs    int64
}

func (e *Engine) verifyFunction(fc *FuncContract) *FuncResult {
	t0 := time.Now()
	res := &FuncResult{Key: fc.Key, Short: shortFuncName(fc.Key), Notes: map[string]int{}, Kind: fc.Kind}
	fn := e.funcsByKey[fc.Key]
	if fn == nil || len(fn.Blocks) == 0 {
		res.Missing = true
		return res
	}
	vf := &VerifyFunc{eng: e, fn: fn, fc: fc, key: fc.Key, notes: res.Notes, env: map[string]*Val{}, usedCallClauses: map[*Clause]bool{}, usedLoops: map[int]bool{}}
	vf.nopanic = fc.Flags["nopanic"] || e.nopanicAll
	vf.lockcheck = fc.Flags["lockcheck"] || fc.Flags["nopanic"]
	st := &State{eng: e, vf: vf, heap: map[string]string{}, declSet: map[string]bool{}}
	fr := &Frame{fn: fn, regs: map[ssa.Value]*Val{}, vars: map[string]*Val{}, block: fn.Blocks[0]}
	st.frames = []*Frame{fr}
	for i, p := range fn.Params {
		v := st.freshVal(p.Type(), "p_"+p.Name())
		st.knowRef(v)
		fr.regs[p] = v
		fr.vars[p.Name()] = v
		vf.params = append(vf.params, v)
		if i < len(fc.Params) && fc.Params[i] != "_" {
			vf.env[fc.Params[i]] = v
		}
		if _, dup := vf.env[p.Name()]; !dup {
			vf.env[p.Name()] = v
		}
	}
	for _, fv := range fn.FreeVars {
		v := st.freshVal(fv.Type(), "fv_"+fv.Name())
		st.knowRef(v)
		fr.regs[fv] = v
		// free variables are addresses of captured variables
		fr.vars["&"+fv.Name()] = v
		vf.env["&"+fv.Name()] = v
		if pt, ok := fv.Type().Underlying().(*types.Pointer); ok && v.S == SInt {
			st.assume(not(eq(v.Tm, "0"))) // the cell of a captured variable exists
			if fc.Flags["capturednonnil"] {
				// synthetic contracts (nopanicarg): what the enclosing function captured is taken to be well-formed, i.e.
				// non-nil where it is a pointer or an interface (assumption, listed in the evidence)
				if s := sortOf(pt.Elem()); s == SInt || s == SIface {
					if a := (&Val{T: fv.Type(), S: SInt, Tm: v.Tm, A: &Addr{Kind: "cell", Base: v.Tm, ElemT: pt.Elem()}}); a != nil {
						if lv := st.load(v, pt.Elem()); lv != nil {
							if lv.S == SIface {
								st.assume(not(eq(lv.Tm, "iface_nil")))
							} else if _, isPtr := pt.Elem().Underlying().(*types.Pointer); isPtr {
								st.assume(not(eq(lv.Tm, "0")))
							}
						}
					}
				}
			}
		}
	}
	if st.frontier == "" {
		st.frontier = "0"
	}
	vf.entryFrontier = st.frontier
	st.entryFrontier = st.frontier
	// receivers of methods are non-nil unless the contract says otherwise
	if fn.Signature.Recv() != nil && len(vf.params) > 0 && !fc.Flags["nilrecv"] {
		if vf.params[0].S == SInt {
			st.assume(not(eq(vf.params[0].Tm, "0")))
		}
	}
	if !fc.Flags["lock-held-on-entry"] {
		// the calling goroutine holds none of the mutexes this function acquires (callers are checked against this)
		st.declare(st.initialHeapName("L:w", 0), "(Array Int Bool)")
		st.declare(st.initialHeapName("L:r", 0), "(Array Int Int)")
		st.eng.noteHeapSort("L:w", "(Array Int Bool)")
		st.eng.noteHeapSort("L:r", "(Array Int Int)")
		st.assume(eq(sym(st.initialHeapName("L:w", 0)), "((as const (Array Int Bool)) false)"))
		st.assume(eq(sym(st.initialHeapName("L:r", 0)), "((as const (Array Int Int)) 0)"))
	}
	for _, a := range e.cs.Lemmas {
		if a.Axiom {
			c := &Clause{Kind: "axiom", Src: a.Src, E: a.E, File: a.File, Line: a.Line}
			t := vf.evalClauseIn(st, c, map[string]*Val{}, nil, a.PkgPath)
			n0 := len(st.assumes)
			st.assume(t)
			if len(st.assumes) > n0 {
				if st.isAxiom == nil {
					st.isAxiom = map[int]bool{}
				}
				st.isAxiom[len(st.assumes)-1] = true
			}
		}
	}
	for _, c := range fc.Requires {
		st.assume(vf.evalClause(st, c, vf.env, nil))
	}
	// vacuity: preconditions (plus type facts) must be satisfiable
	{
		o := &Oblig{Func: res.Short, Kind: "vacuity", Label: "requires-satisfiable", Src: "requires are jointly satisfiable", Goal: "false", ExpectFail: true}
		o.Script = st.script("false")
		vf.obligs = append(vf.obligs, o)
	}
	vf.run(st)
	res.Obligs = vf.obligs
	res.Paths = vf.paths + 1
	res.Truncated = vf.truncated
	// anchors that never attached
	for _, c := range fc.Calls {
		if !vf.usedCallClauses[c] {
			res.Errors = append(res.Errors, fmt.Sprintf("%s:%d: call-site clause `call %s#%d` did not attach to any call in %s", c.File, c.Line, c.CallName, c.CallOrd, res.Short))
		}
	}
	res.Errors = append(res.Errors, e.chanInvErrors(fc, fn)...)
	// loops declared complete: structural obligation on the control-flow graph
	{
		fi := e.info(fn)
		for _, c := range fc.Complete {
			var hdr *ssa.BasicBlock
			for h, k := range fi.headers {
				if k == c.Loop {
					hdr = h
				}
			}
			lab := c.Label
			if lab == "" {
				lab = fmt.Sprintf("loop%d", c.Loop)
			}
			o := &Oblig{Func: res.Short, Kind: "complete", Label: lab, Prop: c.Prop, Src: c.Src, Goal: "true", Res: SolverResult{Status: "unsat", Solver: "syntactic"}}
			if hdr == nil {
				res.Errors = append(res.Errors, fmt.Sprintf("%s:%d: loop %d (declared complete) did not attach in %s", c.File, c.Line, c.Loop, res.Short))
				continue
			}
			body := fi.loopBody[hdr]
			for b := range body {
				if b == hdr {
					continue
				}
				for _, s := range b.Succs {
					if !body[s] {
						pos := e.prog.Fset.Position(b.Instrs[len(b.Instrs)-1].Pos())
						o.Goal = "false"
						o.Where = fmt.Sprintf("%s:%d", trimRepo(e.repo, pos.Filename), pos.Line)
						o.Res = SolverResult{Status: "sat", Solver: "syntactic", Out: "early exit from the loop body at " + o.Where}
					}
				}
				// a return inside the body leaves the loop as well
				if _, isRet := b.Instrs[len(b.Instrs)-1].(*ssa.Return); isRet {
					o.Goal = "false"
					o.Res = SolverResult{Status: "sat", Solver: "syntactic", Out: "return inside the loop body"}
				}
			}
			vf.obligs = append(vf.obligs, o)
		}
		res.Obligs = vf.obligs
	}
	for k := range fc.Loops {
		if !vf.usedLoops[k] {
			res.Errors = append(res.Errors, fmt.Sprintf("loop %d invariant did not attach in %s", k, res.Short))
		}
	}
	res.WallMs = time.Since(t0).Milliseconds()
	return res
}

// canary: on the first returning path "ensures false" must not be provable.
func (vf *VerifyFunc) canary(st *State) {
	// canaries on a spread of returning paths (first few, powers of two, every 37th): the check passes when
	// any one of them is feasible and cannot prove false
	vf.returns++
	n := vf.returns
	if !(n <= 4 || n&(n-1) == 0 || n%37 == 0) {
		return
	}
	o := &Oblig{Func: shortFuncName(vf.key), Kind: "canary", Label: "ensures-false-must-fail", Src: "ensures false (must NOT be provable)", Goal: "false", ExpectFail: true, Trail: strings.Join(st.trail, " ")}
	o.Script = st.script("false")
	vf.obligs = append(vf.obligs, o)
}

// ---- lemmas -------------------------------------------------------------

func (e *Engine) lemmaObligs(prop string) []*Oblig {
	var out []*Oblig
	var axioms []*Lemma
	for _, l := range e.cs.Lemmas {
		if l.Axiom {
			axioms = append(axioms, l)
		}
	}
	for _, l := range e.cs.Lemmas {
		if l.Axiom || (prop != "" && !propMatch(l.Prop, prop)) {
			continue
		}
		vf := &VerifyFunc{eng: e, key: "lemma." + l.Name, notes: map[string]int{}, env: map[string]*Val{}, usedCallClauses: map[*Clause]bool{}, usedLoops: map[int]bool{}}
		st := &State{eng: e, vf: vf, heap: map[string]string{}, declSet: map[string]bool{}}
		for _, a := range axioms {
			c := &Clause{Kind: "axiom", Src: a.Src, E: a.E, File: a.File, Line: a.Line}
			st.assume(vf.evalClauseIn(st, c, map[string]*Val{}, nil, a.PkgPath))
		}
		c := &Clause{Kind: "lemma", Src: l.Src, E: l.E, File: l.File, Line: l.Line}
		goal := vf.evalClauseIn(st, c, map[string]*Val{}, nil, l.PkgPath)
		o := &Oblig{Func: "lemma", Kind: "lemma", Label: l.Name, Prop: l.Prop, Src: l.Src, Where: fmt.Sprintf("%s:%d", l.File, l.Line), Goal: goal}
		o.Script = st.script(goal)
		out = append(out, o)
		// vacuity of quantified implications: hypotheses satisfiable
		if q, ok := l.E.(EQuant); ok && q.Forall {
			if imp, ok := q.Body.(EBinary); ok && imp.Op == "==>" {
				hyp := EQuant{Forall: false, Vars: q.Vars, Body: imp.X}
				hc := &Clause{Kind: "lemma", Src: "exists: " + imp.X.String(), E: hyp, File: l.File, Line: l.Line}
				st2 := &State{eng: e, vf: vf, heap: map[string]string{}, declSet: map[string]bool{}}
				for _, a := range axioms {
					ca := &Clause{Kind: "axiom", Src: a.Src, E: a.E, File: a.File, Line: a.Line}
					st2.assume(vf.evalClauseIn(st2, ca, map[string]*Val{}, nil, a.PkgPath))
				}
				h := vf.evalClauseIn(st2, hc, map[string]*Val{}, nil, l.PkgPath)
				st2.assume(h)
				vo := &Oblig{Func: "lemma", Kind: "vacuity", Label: l.Name + ".hyp-satisfiable", Prop: l.Prop, Src: "hypotheses of " + l.Name + " are satisfiable", Goal: "false", ExpectFail: true}
				vo.Script = st2.script("false")
				out = append(out, vo)
			}
		}
	}
	// axioms are jointly satisfiable
	if len(axioms) > 0 && prop != "" {
		vf := &VerifyFunc{eng: e, key: "axioms", notes: map[string]int{}, env: map[string]*Val{}, usedCallClauses: map[*Clause]bool{}, usedLoops: map[int]bool{}}
		st := &State{eng: e, vf: vf, heap: map[string]string{}, declSet: map[string]bool{}}
		n := 0
		for _, a := range axioms {
			if !propMatch(a.Prop, prop) && a.Prop != "" {
				continue
			}
			n++
			c := &Clause{Kind: "axiom", Src: a.Src, E: a.E, File: a.File, Line: a.Line}
			st.assume(vf.evalClauseIn(st, c, map[string]*Val{}, nil, a.PkgPath))
		}
		if n > 0 {
			vo := &Oblig{Func: "axioms", Kind: "vacuity", Label: "axioms-consistent", Prop: prop, Src: "declared axioms are jointly satisfiable", Goal: "false", ExpectFail: true}
			vo.Script = st.script("false")
			out = append(out, vo)
		}
	}
	return out
}

func propMatch(tags, prop string) bool {
	for _, t := range strings.Split(tags, ",") {
		if t == prop {
			return true
		}
	}
	return false
}

// ---- discharge ---------------------------------------------------------

func (e *Engine) dischargeAll(obs []*Oblig) {
	var wg sync.WaitGroup
	sem := make(chan struct{}, 16)
	for _, o := range obs {
		if o.Script == "" {
			continue
		}
		wg.Add(1)
		sem <- struct{}{}
		go func(o *Oblig) {
			defer wg.Done()
			defer func() { <-sem }()
			if o.ExpectFail {
				// vacuity / canary checks only need "not provably unsat": one solver, short budget
				o.Res, o.File = dischargeOne(o.Script, e.outDir, o.Name(), 2)
			} else {
				// obligations listed as known findings are expected to stay undischarged: no second, longer attempt
				o.Res, o.File = discharge(o.Script, e.outDir, o.Name(), e.timeoutS, e.race, !e.knownObligs[o.Name()])
			}
		}(o)
	}
	wg.Wait()
}

func (o *Oblig) ok() bool {
	if o.ExpectFail {
		return o.Res.Status != "unsat"
	}
	return o.Res.Status == "unsat"
}

// selectContracts returns the function contracts serving a property, sorted.
func (e *Engine) selectContracts(prop string) []*FuncContract {
	var out []*FuncContract
	for _, fc := range e.cs.Funcs {
		if fc.Kind != "func" {
			continue
		}
		if prop == "" || fc.Props[prop] {
			out = append(out, fc)
		}
	}
	sort.Slice(out, func(i, j int) bool { return out[i].Key < out[j].Key })
	return out
}

func (e *Engine) trustedBase(prop string, used map[string]bool) []string {
	var out []string
	for k, fc := range e.cs.Funcs {
		if fc.Kind == "func" {
			continue
		}
		if !used[k] {
			continue
		}
		s := fc.Kind + " " + shortFuncName(strings.TrimPrefix(k, "field:")) + " (assumed contract"
		if fc.Trusted != "" {
			s += ": " + fc.Trusted
		}
		s += ")"
		out = append(out, s)
	}
	for k, fc := range e.cs.Funcs {
		// flags trustedframe: the body is verified for its other obligations, its modifies clause is assumed at callers
		if fc.Kind == "func" && fc.Flags["trustedframe"] && (used[k] || prop == "" || fc.Props[prop]) {
			s := "frame of " + shortFuncName(k) + " (modifies clause assumed at its call sites, not checked against its body"
			if fc.Trusted != "" {
				s += ": " + fc.Trusted
			}
			out = append(out, s+")")
		}
	}
	for k, fc := range e.cs.Funcs {
		if !used[k] && fc.Kind != "func" {
			continue
		}
		for _, c := range fc.Ensures {
			if c.Def && (c.Prop == "" || propMatch(c.Prop, prop)) {
				out = append(out, "definition at return of "+shortFuncName(k)+" (assumed at its call sites, not proved of its body): "+c.Src)
			}
		}
	}
	for _, l := range e.cs.Lemmas {
		if l.Axiom && (l.Prop == "" || propMatch(l.Prop, prop)) {
			out = append(out, "axiom "+l.Name+": "+l.Src)
		}
	}
	// preconditions of functions under contract that no caller is asked to establish: untagged requires of entry points
	// are assumptions by nature; the ones tagged [wf] (well-formedness) or with another property are listed explicitly
	for k, fc := range e.cs.Funcs {
		if fc.Kind != "func" || !fc.Props[prop] {
			continue
		}
		for _, c := range fc.Requires {
			if c.Prop == "wf" || (c.Prop != "" && !propMatch(c.Prop, prop)) {
				out = append(out, "assumed precondition of "+shortFuncName(k)+" (tag "+c.Prop+", not an obligation of its callers under this property): "+c.Src)
			} else {
				out = append(out, "precondition of "+shortFuncName(k)+" (assumed at its entry; an obligation only at call sites inside other functions under contract): "+c.Src)
			}
		}
	}
	sort.Strings(out)
	return out
}

var _ = types.Typ
