package main

import (
	"fmt"
	"go/types"
	"sort"
	"strings"

	"golang.org/x/tools/go/ssa"
)

type deferred struct {
	call *ssa.Defer
	args []*Val // evaluated at defer time (callee value first when dynamic)
	fnv  *Val
}

type Frame struct {
	fn      *ssa.Function
	regs    map[ssa.Value]*Val
	vars    map[string]*Val
	block   *ssa.BasicBlock
	prev    *ssa.BasicBlock
	idx     int
	defers  []*deferred
	results []*Val // set on return
	inlined bool
	pendingDefer bool
}

type Oblig struct {
	Func   string
	Kind   string // post pre assert inv.init inv.pres frame nopanic lock lemma vacuity
	Label  string
	Prop   string
	Src    string
	Where  string // source position
	Script string
	Trail  string
	Goal   string
	// results
	Res      SolverResult
	File     string
	ExpectFail bool // canary / vacuity checks: must be sat
	Cover      func() string // script asking whether the path that reaches this obligation is feasible (goal false)
}

func (o *Oblig) Name() string { return o.Func + "/" + o.Kind + "/" + o.Label }

type State struct {
	eng      *Engine
	vf       *VerifyFunc
	heap     map[string]string
	epoch    int
	decls    []string
	declSet  map[string]bool
	assumes  []string
	n        int
	frames   []*Frame
	known    []string // known refs (terms) for allocation distinctness
	locked   []lockRec
	trail    []string
	dead     bool
	oldHeap  map[string]string // for old() during contract evaluation (nil = entry heap)
	useOld   bool
	steps    int
	freshErrs []string
	appendInplace bool // which outcome of append this path explores (set by the interpreter at the fork)
	facts    map[string]bool
	frontier string
	isAxiom  map[int]bool
	conds    map[string]bool   // branch conditions already decided on this path
	eqNum    map[string]string // terms known equal to a numeral
	freshRefs []string
	protected []string // refs of non-escaping local allocations (survive havoc-all)
	heldNow       int             // lock / rlock operations not yet matched by an unlock on this path (syntactic count)
	entryFrontier string          // frontier after the parameters: everything that existed at entry is at or below it
	closedSeen    map[string]bool // entry-closure facts already assumed on this path
}

type lockRec struct {
	addr string
	desc string
}

func (st *State) fork() *State {
	n := *st
	n.heap = make(map[string]string, len(st.heap))
	for k, v := range st.heap {
		n.heap[k] = v
	}
	n.decls = append([]string(nil), st.decls...)
	n.declSet = make(map[string]bool, len(st.declSet))
	for k := range st.declSet {
		n.declSet[k] = true
	}
	n.assumes = append([]string(nil), st.assumes...)
	n.known = append([]string(nil), st.known...)
	n.locked = append([]lockRec(nil), st.locked...)
	n.trail = append([]string(nil), st.trail...)
	n.protected = append([]string(nil), st.protected...)
	n.freshErrs = append([]string(nil), st.freshErrs...)
	n.facts = make(map[string]bool, len(st.facts))
	for k := range st.facts {
		n.facts[k] = true
	}
	n.isAxiom = make(map[int]bool, len(st.isAxiom))
	for k, v := range st.isAxiom {
		n.isAxiom[k] = v
	}
	n.conds = make(map[string]bool, len(st.conds))
	for k, v := range st.conds {
		n.conds[k] = v
	}
	n.eqNum = make(map[string]string, len(st.eqNum))
	for k, v := range st.eqNum {
		n.eqNum[k] = v
	}
	n.freshRefs = append([]string(nil), st.freshRefs...)
	n.closedSeen = make(map[string]bool, len(st.closedSeen))
	for k := range st.closedSeen {
		n.closedSeen[k] = true
	}
	n.frames = make([]*Frame, len(st.frames))
	for i, f := range st.frames {
		g := *f
		g.regs = make(map[ssa.Value]*Val, len(f.regs))
		for k, v := range f.regs {
			g.regs[k] = v
		}
		g.vars = make(map[string]*Val, len(f.vars))
		for k, v := range f.vars {
			g.vars[k] = v
		}
		g.defers = append([]*deferred(nil), f.defers...)
		n.frames[i] = &g
	}
	return &n
}

func (st *State) top() *Frame { return st.frames[len(st.frames)-1] }

func (st *State) declare(name, sort string) {
	if st.declSet[name] {
		return
	}
	st.declSet[name] = true
	st.decls = append(st.decls, "(declare-fun "+sym(name)+" () "+sort+")")
}

func (st *State) fresh(prefix, sort string) string {
	st.n++
	name := fmt.Sprintf("%s!%d", prefix, st.n)
	st.declare(name, sort)
	return sym(name)
}

func (st *State) assume(t string) {
	if t == "true" || t == "" {
		return
	}
	st.assumes = append(st.assumes, t)
}

func (st *State) note(s string) {
	st.vf.notes[s]++
}

// ---- heap ---------------------------------------------------------------

func heapSortFor(key, valSort string) string {
	switch {
	case strings.HasPrefix(key, "E:"):
		return "(Array Int (Array Int " + valSort + "))"
	case strings.HasPrefix(key, "V:"):
		return valSort
	}
	return "(Array Int " + valSort + ")"
}

func (st *State) initialHeapName(key string, epoch int) string {
	return fmt.Sprintf("H%d!%s", epoch, key)
}

// heapGet returns the current term of a heap array, creating the initial constant lazily.
func (st *State) heapGet(key, arrSort string) string {
	st.eng.noteHeapSort(key, arrSort)
	if st.useOld {
		if st.oldHeap != nil {
			if t, ok := st.oldHeap[key]; ok {
				return t
			}
			// key untouched at snapshot time: whatever is its initial constant for the snapshot epoch
			// (snapshot epoch recorded under special key)
			ep := 0
			if e, ok := st.oldHeap["\x00epoch"]; ok {
				fmt.Sscan(e, &ep)
			}
			n := st.initialHeapName(key, ep)
			st.declare(n, arrSort)
			return sym(n)
		}
		n := st.initialHeapName(key, 0)
		st.declare(n, arrSort)
		return sym(n)
	}
	if t, ok := st.heap[key]; ok {
		return t
	}
	n := st.initialHeapName(key, st.epoch)
	st.declare(n, arrSort)
	st.heap[key] = sym(n)
	return sym(n)
}

func (st *State) heapSet(key, arrSort, term string) {
	st.eng.noteHeapSort(key, arrSort)
	// name the new version to keep terms small
	n := st.fresh("h", arrSort)
	st.assume(eq(n, term))
	st.heap[key] = n
}

func (st *State) snapshot() map[string]string {
	m := make(map[string]string, len(st.heap)+1)
	for k, v := range st.heap {
		m[k] = v
	}
	m["\x00epoch"] = fmt.Sprint(st.epoch)
	return m
}

// havocAll forgets everything about the heap except protected local objects.
func (st *State) havocAll(reason string) {
	st.note("havoc-all: " + reason)
	keys := make([]string, 0, len(st.heap))
	for k := range st.heap {
		keys = append(keys, k)
	}
	sort.Strings(keys)
	old := st.heap
	// lock state that no instruction has touched yet still has its entry-epoch name: it has to survive the havoc like
	// touched lock state does (otherwise the first Lock after an unknown callee sees an unconstrained lock state)
	for _, lk := range [][2]string{{"L:w", "(Array Int Bool)"}, {"L:r", "(Array Int Int)"}} {
		if _, ok := old[lk[0]]; !ok {
			old[lk[0]] = st.heapGet(lk[0], lk[1])
			keys = append(keys, lk[0])
		}
	}
	sort.Strings(keys)
	st.heap = map[string]string{}
	st.epoch++
	// touch every known key so that the new epoch constant is used
	for _, k := range keys {
		if strings.HasPrefix(k, "L:") || strings.HasPrefix(k, "V:err:") {
			st.heap[k] = old[k] // locks held by us and error sentinels are not changed by callees
			continue
		}
		as := st.eng.heapSort(k)
		if as == "" {
			continue
		}
		n := st.heapGet(k, as)
		if strings.HasPrefix(k, "V:") {
			continue
		}
		if !strings.HasPrefix(as, "(Array Int ") {
			continue // ghost state keyed by strings or bytes (file system view): no object references to protect
		}
		for _, r := range st.protected {
			st.assume(eq(sel(n, r), sel(old[k], r)))
		}
	}
}

func (st *State) havocKey(key string) {
	as := st.eng.heapSort(key)
	if as == "" {
		return
	}
	old := st.heapGet(key, as)
	n := st.fresh("hv", as)
	st.heap[key] = n
	if strings.HasPrefix(key, "V:") || !strings.HasPrefix(as, "(Array Int ") {
		return
	}
	for _, r := range st.protected {
		st.assume(eq(sel(n, r), sel(old, r)))
	}
}

// ---- struct field access -----------------------------------------------

func (e *Engine) fieldKey(st types.Type, idx int) (key string, ft types.Type) {
	s := structFields(st)
	f := s.Field(idx)
	owner := typeKey(st)
	if _, named := st.(*types.Named); !named {
		if _, al := st.(*types.Alias); !al {
			owner = "struct#" + fmt.Sprint(e.anonID(typeKey(st)))
		}
	}
	return "F:" + owner + "." + f.Name(), f.Type()
}

// loadField reads field idx of the struct object at ref.
func (st *State) loadField(ref string, stT types.Type, idx int) *Val {
	key, ft := st.eng.fieldKey(stT, idx)
	if structFields(ft) != nil {
		// nested struct by value: object at derived address
		sub := st.subObj(ref, key)
		return st.loadStruct(sub, ft)
	}
	if a, ok := ft.Underlying().(*types.Array); ok && !isByte(a.Elem()) {
		sub := st.subObj(ref, key)
		return &Val{T: ft, S: "", Tm: sub} // array by value inside struct: opaque, addressed via sub
	}
	s := sortOf(ft)
	h := st.heapGet(key, heapSortFor(key, s))
	v := &Val{T: ft, S: s, Tm: sel(h, ref)}
	if _, isSig := ft.Underlying().(*types.Signature); isSig {
		v.Fn = &FnVal{Key: "field:" + strings.TrimPrefix(key, "F:"), Self: &Val{T: types.NewPointer(stT), S: SInt, Tm: ref}}
	}
	return v
}

func (st *State) subObj(ref, key string) string {
	fid := st.eng.fieldID(key)
	t := "(fld_addr " + ref + " " + fmt.Sprint(fid) + ")"
	if !st.useOld {
		key2 := "fb:" + t
		if !st.declSet[key2] {
			st.declSet[key2] = true
			// fld_addr is a constructor: base and field are recoverable from the address (two different fields, of the same
			// or of different objects, are different locations)
			st.assume(and(eq("(fld_base "+t+")", ref), eq("(obj_root "+t+")", "(obj_root "+ref+")"), eq("(fld_id "+t+")", fmt.Sprint(fid))))
		}
	}
	return t
}

func (st *State) loadStruct(ref string, t types.Type) *Val {
	s := structFields(t)
	v := &Val{T: t, Tm: ref} // Tm of a struct loaded from memory = its address
	for i := 0; i < s.NumFields(); i++ {
		v.Fs = append(v.Fs, st.loadField(ref, t, i))
	}
	return v
}

func (st *State) storeField(ref string, stT types.Type, idx int, v *Val) {
	key, ft := st.eng.fieldKey(stT, idx)
	if structFields(ft) != nil {
		sub := st.subObj(ref, key)
		st.storeStruct(sub, ft, v)
		return
	}
	if a, ok := ft.Underlying().(*types.Array); ok && !isByte(a.Elem()) {
		st.note("store of array-valued field abstracted")
		return
	}
	s := sortOf(ft)
	as := heapSortFor(key, s)
	h := st.heapGet(key, as)
	st.heapSet(key, as, store(h, ref, st.coerce(v, ft).Tm))
}

func (st *State) storeStruct(ref string, t types.Type, v *Val) {
	s := structFields(t)
	for i := 0; i < s.NumFields(); i++ {
		var fv *Val
		if v != nil && i < len(v.Fs) {
			fv = v.Fs[i]
		} else {
			fv = st.zeroVal(s.Field(i).Type())
		}
		st.storeField(ref, t, i, fv)
	}
}

// ---- values -------------------------------------------------------------

func (st *State) zeroVal(t types.Type) *Val {
	s := sortOf(t)
	if s != "" {
		return &Val{T: t, S: s, Tm: zeroOfSort(s)}
	}
	switch u := t.Underlying().(type) {
	case *types.Struct:
		v := &Val{T: t}
		for i := 0; i < u.NumFields(); i++ {
			v.Fs = append(v.Fs, st.zeroVal(u.Field(i).Type()))
		}
		return v
	case *types.Tuple:
		v := &Val{T: t}
		for i := 0; i < u.Len(); i++ {
			v.Fs = append(v.Fs, st.zeroVal(u.At(i).Type()))
		}
		return v
	case *types.Array:
		return &Val{T: t, S: "", Tm: "0"}
	}
	return &Val{T: t, S: SInt, Tm: "0"}
}

// freshVal creates an unconstrained value of type t (with machine-integer range facts).
func (st *State) freshVal(t types.Type, hint string) *Val {
	s := sortOf(t)
	if s != "" {
		n := st.fresh(hint, s)
		v := &Val{T: t, S: s, Tm: n}
		st.assume(rangeFact(t, n))
		st.typeFacts(v)
		return v
	}
	switch u := t.Underlying().(type) {
	case *types.Struct:
		v := &Val{T: t}
		for i := 0; i < u.NumFields(); i++ {
			v.Fs = append(v.Fs, st.freshVal(u.Field(i).Type(), hint+"."+u.Field(i).Name()))
		}
		return v
	case *types.Tuple:
		v := &Val{T: t}
		for i := 0; i < u.Len(); i++ {
			v.Fs = append(v.Fs, st.freshVal(u.At(i).Type(), fmt.Sprintf("%s.%d", hint, i)))
		}
		return v
	case *types.Array:
		n := st.fresh(hint, SInt)
		return &Val{T: t, S: "", Tm: n}
	}
	n := st.fresh(hint, SInt)
	return &Val{T: t, S: SInt, Tm: n}
}

// typeFacts adds facts every well-typed value satisfies.
func (st *State) typeFacts(v *Val) {
	switch v.S {
	case SBytes:
		st.assume("(and (>= (bytes_len " + v.Tm + ") 0) (<= (bytes_len " + v.Tm + ") 9223372036854775807))")
		if a, ok := v.T.Underlying().(*types.Array); ok {
			st.assume(eq("(bytes_len "+v.Tm+")", fmt.Sprint(a.Len())))
		}
	case SStr:
		st.assume("(and (>= (str_len " + v.Tm + ") 0) (<= (str_len " + v.Tm + ") 9223372036854775807))")
	case SSlice:
		st.assume("(and (>= (s_off " + v.Tm + ") 0) (>= (s_len " + v.Tm + ") 0) (>= (s_cap " + v.Tm + ") (s_len " + v.Tm + ")) (<= (s_cap " + v.Tm + ") 9223372036854775807) (>= (s_base " + v.Tm + ") 0) (=> (= (s_base " + v.Tm + ") 0) (= (s_cap " + v.Tm + ") 0)))")
		// type safety: a backing array has one element type, so slices of different element types never share one
		if v.T != nil {
			if sl, ok := v.T.Underlying().(*types.Slice); ok {
				if _, isTP := sl.Elem().(*types.TypeParam); !isTP {
					st.assume("(=> (not (= (s_base " + v.Tm + ") 0)) (= (elemtag (s_base " + v.Tm + ")) " + fmt.Sprint(st.eng.typeTag(sl.Elem())) + "))")
				}
			}
		}
	case SInt:
		if v.T != nil {
			switch v.T.Underlying().(type) {
			case *types.Pointer, *types.Map, *types.Chan, *types.Signature:
				st.assume("(>= " + v.Tm + " 0)")
			}
		}
	}
}

// coerce adapts v to be stored where a value of type t is expected.
func (st *State) coerce(v *Val, t types.Type) *Val {
	want := sortOf(t)
	if v.S == want || want == "" {
		return v
	}
	// nil constants
	if v.S == SInt && v.Tm == "0" {
		return &Val{T: t, S: want, Tm: zeroOfSort(want)}
	}
	if want == SInt && v.S == SIface {
		return &Val{T: t, S: SInt, Tm: "(i_val " + v.Tm + ")"}
	}
	st.note(fmt.Sprintf("sort coercion %s -> %s", v.S, want))
	return st.freshVal(t, "coerce")
}

func (st *State) valEq(a, b *Val) string {
	if a.S != "" && b.S != "" {
		if a.S == b.S {
			return eq(a.Tm, b.Tm)
		}
		// nil comparisons
		if b.S == SInt && b.Tm == "0" {
			return eq(a.Tm, zeroOfSort(a.S))
		}
		if a.S == SInt && a.Tm == "0" {
			return eq(b.Tm, zeroOfSort(b.S))
		}
		if a.S == SIface && b.S == SInt {
			return eq("(i_val "+a.Tm+")", b.Tm)
		}
		if a.S == SInt && b.S == SIface {
			return eq(a.Tm, "(i_val "+b.Tm+")")
		}
		if a.S == SInt && b.S == SReal {
			return eq("(to_real "+a.Tm+")", b.Tm)
		}
		if a.S == SReal && b.S == SInt {
			return eq(a.Tm, "(to_real "+b.Tm+")")
		}
		st.note("equality between sorts " + a.S + "/" + b.S)
		return st.fresh("eqx", SBool)
	}
	if a.S == "" && b.S == "" && len(a.Fs) == len(b.Fs) && len(a.Fs) > 0 {
		var cs []string
		for i := range a.Fs {
			cs = append(cs, st.valEq(a.Fs[i], b.Fs[i]))
		}
		return and(cs...)
	}
	if a.S == "" && b.S == "" && a.Tm != "" && b.Tm != "" {
		return eq(a.Tm, b.Tm)
	}
	st.note("equality on composite abstracted")
	return st.fresh("eqx", SBool)
}

// decide records the outcome of a branch condition; decided answers later branches on the same
// (or a syntactically contradictory) condition without forking. Purely an optimisation: it only
// skips paths whose path condition is unsatisfiable.
func (st *State) decide(c string, v bool) {
	if st.conds == nil {
		st.conds = map[string]bool{}
		st.eqNum = map[string]string{}
	}
	if strings.HasPrefix(c, "(not ") && balanced(c[5:len(c)-1]) {
		st.decide(c[5:len(c)-1], !v)
		return
	}
	st.conds[c] = v
	if v {
		if t, n, ok := eqNumeral(c); ok {
			st.eqNum[t] = n
		}
	}
}

func (st *State) decided(c string) (bool, bool) {
	if st.conds == nil {
		return false, false
	}
	neg := false
	for strings.HasPrefix(c, "(not ") && balanced(c[5:len(c)-1]) {
		c = c[5 : len(c)-1]
		neg = !neg
	}
	if v, ok := st.conds[c]; ok {
		return v != neg, true
	}
	if t, n, ok := eqNumeral(c); ok {
		if m, known := st.eqNum[t]; known && m != n {
			return neg, true // t = m and m != n: condition (= t n) is false
		}
	}
	return false, false
}

// eqNumeral matches (= T n) with n a numeral.
func eqNumeral(c string) (term, numeral string, ok bool) {
	if !strings.HasPrefix(c, "(= ") || !strings.HasSuffix(c, ")") {
		return
	}
	body := c[3 : len(c)-1]
	i := strings.LastIndex(body, " ")
	if i < 0 {
		return
	}
	t, n := body[:i], body[i+1:]
	if _, isNum := parseNum(n); !isNum || !balanced(t) {
		return
	}
	return t, n, true
}
