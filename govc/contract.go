package main

// Contract files: `//@` comment lines (Gobra flavour), keyed by function name,
// loop ordinal and call-site label. See DESIGN.md §4.2.

import (
	"bufio"
	"fmt"
	"os"
	"regexp"
	"strconv"
	"strings"
)

type Clause struct {
	Kind  string // requires ensures invariant assert assume
	Prop  string // C01.. (may be empty = shared)
	Label string
	Src   string
	E     Expr
	File  string
	Line  int
	// for loop / call clauses
	Loop     int
	CallName string
	CallOrd  int
	Aux      Expr // monitor clauses: the mutex expression
	After    bool // assert evaluated after the call (with results bound)
	Def      bool // definitional ensures (assumed at call sites only)
}

type ModLoc struct {
	Src string
	E   Expr // EIdent "everything" | ESel | ECall(ghostfield,...) | ...
}

type FuncContract struct {
	Kind     string // func extern iface field
	Key      string // canonical key (FullName style)
	Params   []string
	Results  []string
	Requires []*Clause
	Ensures  []*Clause
	Modifies []ModLoc
	HasMod   bool
	Relies   []ModLoc // locations other goroutines may change at blocking points
	Loops    map[int][]*Clause
	Calls    []*Clause // asserts at call sites
	Flags    map[string]bool
	Props    map[string]bool // properties this function's proof serves
	File     string
	Line     int
	PkgPath  string
	Trusted  string // reason text for extern
	SameAs   string // paramfunc: the function value is the function with this key; its contract (minus preconditions over its own free variables) is used
	Grows    map[string]bool // rely locations that only grow (boolean ghost sets): old members stay members
	Invokes  string // name of a func-typed parameter this function calls exactly once (its contract is applied at the call)
	Monitors []*Clause // monitor invariants: `monitor <mutex expr>: invariant e` (CallName = source of the mutex expression, Aux = its Expr)
	NoPanicProp string // property the no-panic obligations are counted under (flags nopanic=Cxx; default C14)
	Complete []*Clause // loops declared complete (no early exit)
	ChanInvs []*Clause // channel invariants: `chan <local>: invariant <expr over elem>` (CallName = the channel variable)
}

type NoPanicArg struct {
	Callee string
	Arg    int
	File   string
	Line   int
}

type GuardDecl struct {
	PkgPath, Type, Field, Lock string
	File                        string
	Line                        int
}

type GhostFn struct {
	Name   string
	Params []string // spec types
	Result string
	Field  bool // mutable ghost heap (first param is the ref key)
	PkgPath string
}

type Pred struct {
	Name   string
	Params []QVar
	Body   Expr
	Src    string
	PkgPath string
}

type Lemma struct {
	Name  string
	Prop  string
	E     Expr
	Src   string
	Axiom bool
	File  string
	Line  int
	PkgPath string
}

type Contracts struct {
	Funcs   map[string]*FuncContract
	Ghosts  map[string]*GhostFn
	Preds   map[string]*Pred
	Lemmas  []*Lemma
	Pure    []string // prefixes of FullName treated as pure
	Guarded []GuardDecl // map-typed struct fields that may only be accessed while a mutex field of the same struct is held
	Sinks   []string // callee key prefixes of formatting / logging sinks (C15 secret-flow obligations)
	Secrets []string // type strings whose printed form is secret
	Encoders   []string // method names / function keys that serialise a secret value (C15)
	MayEncode  []string // function key prefixes that are allowed to do so (the key store and database mirrors)
	Files   []string
	Trusted []string // human readable list of assumptions
	NoPanicArgs []NoPanicArg
	SecretFields []string
	Sources map[string]string // pkgpath -> file used
}

func newContracts() *Contracts {
	return &Contracts{Funcs: map[string]*FuncContract{}, Ghosts: map[string]*GhostFn{}, Preds: map[string]*Pred{}, Sources: map[string]string{}}
}

var reHeader = regexp.MustCompile(`^(func|extern|iface|field|paramfunc)\s+(.+?)\(([^)]*)\)\s*(?:\(([^)]*)\))?\s*$`)
var reTag = regexp.MustCompile(`^\[([A-Za-z0-9_,]*)(?::([^\]]+))?\]\s*`)
var reLoop = regexp.MustCompile(`^loop\s+(\d+)\s*:\s*invariant\s+(.*)$`)
var reLoopComplete = regexp.MustCompile(`^loop\s+(\d+)\s*:\s*complete\s*(.*)$`)
var reMonitor = regexp.MustCompile(`^monitor\s+([A-Za-z0-9_.]+)\s*:\s*invariant\s+(.*)$`)
var reChan = regexp.MustCompile(`^chan\s+([A-Za-z0-9_]+)\s*:\s*invariant\s+(.*)$`)
var reCall = regexp.MustCompile(`^call\s+([A-Za-z0-9_.$]+)#(\d+)\s*:\s*(assert|after)\s+(.*)$`)

func splitNames(s string) []string {
	var out []string
	for _, p := range strings.Split(s, ",") {
		p = strings.TrimSpace(p)
		if p == "" {
			continue
		}
		// allow "name type" – keep name only
		f := strings.Fields(p)
		out = append(out, f[0])
	}
	return out
}

// canonKey expands a short in-package key to FullName style.
func canonKey(pkgPath, k string) string {
	k = strings.TrimSpace(k)
	if strings.Contains(k, "/") || pkgPath == "" {
		return k
	}
	// method: (*T).M or (T).M
	if strings.HasPrefix(k, "(*") {
		return "(*" + pkgPath + "." + k[2:]
	}
	if strings.HasPrefix(k, "(") {
		return "(" + pkgPath + "." + k[1:]
	}
	// has a dot with a package-like qualifier already (e.g. bytes.Equal): leave
	if i := strings.Index(k, "."); i > 0 && !strings.Contains(k[:i], "$") {
		return k
	}
	return pkgPath + "." + k
}

func (cs *Contracts) loadFile(path, pkgPath string) error {
	f, err := os.Open(path)
	if err != nil {
		return err
	}
	defer f.Close()
	cs.Files = append(cs.Files, path)
	sc := bufio.NewScanner(f)
	sc.Buffer(make([]byte, 1<<20), 1<<20)
	var cur *FuncContract
	ln := 0
	var pending string
	pendingLine := 0
	flush := func() error {
		if pending == "" {
			return nil
		}
		line := pending
		l := pendingLine
		pending = ""
		return cs.parseLine(&cur, line, path, l, pkgPath)
	}
	for sc.Scan() {
		ln++
		t := strings.TrimSpace(sc.Text())
		if !strings.HasPrefix(t, "//@") {
			if err := flush(); err != nil {
				return err
			}
			continue
		}
		t = strings.TrimSpace(t[3:])
		if t == "" {
			continue
		}
		cont := strings.HasPrefix(t, "\\")
		t = strings.TrimSpace(strings.TrimSuffix(strings.TrimPrefix(t, "\\"), "\\"))
		if cont { // continuation line
			pending += " " + t
			continue
		}
		if err := flush(); err != nil {
			return err
		}
		pending = t
		pendingLine = ln
	}
	return flush()
}

func (cs *Contracts) parseLine(cur **FuncContract, t, path string, ln int, pkgPath string) error {
	errf := func(f string, a ...any) error {
		return fmt.Errorf("%s:%d: %s", path, ln, fmt.Sprintf(f, a...))
	}
	// strip trailing comment  " // ..."
	if i := strings.Index(t, " // "); i >= 0 {
		t = strings.TrimSpace(t[:i])
	}
	if m := reHeader.FindStringSubmatch(t); m != nil {
		fc := &FuncContract{Kind: m[1], Key: canonKey(pkgPath, m[2]), Params: splitNames(m[3]), Results: splitNames(m[4]),
			Loops: map[int][]*Clause{}, Flags: map[string]bool{}, Props: map[string]bool{}, File: path, Line: ln, PkgPath: pkgPath}
		if m[1] == "field" {
			fc.Key = "field:" + canonKeyField(pkgPath, m[2])
		}
		if m[1] == "paramfunc" {
			// paramfunc (*T).Method.param(...) : contract assumed for calls through that func-typed parameter
			i := strings.LastIndex(m[2], ".")
			fc.Key = "param:" + canonKey(pkgPath, m[2][:i]) + "." + m[2][i+1:]
		}
		if old, dup := cs.Funcs[fc.Key]; dup {
			return errf("duplicate contract for %s (first at %s:%d)", fc.Key, old.File, old.Line)
		}
		cs.Funcs[fc.Key] = fc
		*cur = fc
		return nil
	}
	word := strings.Fields(t)[0]
	rest := strings.TrimSpace(t[len(word):])
	tagProp, tagLabel := "", ""
	takeTag := func() {
		if m := reTag.FindStringSubmatch(rest); m != nil {
			tagProp, tagLabel = m[1], m[2]
			rest = rest[len(m[0]):]
		}
	}
	switch word {
	case "requires", "ensures", "defines":
		if *cur == nil {
			return errf("%s outside function contract", word)
		}
		takeTag()
		e, err := parseExpr(rest)
		if err != nil {
			return errf("%v", err)
		}
		c := &Clause{Kind: word, Prop: tagProp, Label: tagLabel, Src: rest, E: e, File: path, Line: ln}
		if word == "defines" {
			// definitional postcondition: introduces a ghost predicate at this function's return; assumed at call
			// sites, not an obligation of the body (reported as an assumption)
			c.Kind = "ensures"
			c.Def = true
		}
		if word == "requires" {
			(*cur).Requires = append((*cur).Requires, c)
		} else {
			(*cur).Ensures = append((*cur).Ensures, c)
		}
		if tagProp != "" {
			for _, p := range strings.Split(tagProp, ",") {
				(*cur).Props[p] = true
			}
		}
	case "modifies":
		if *cur == nil {
			return errf("modifies outside function contract")
		}
		(*cur).HasMod = true
		if rest == "nothing" {
			return nil
		}
		for _, part := range splitTop(rest) {
			e, err := parseExpr(part)
			if err != nil {
				return errf("%v", err)
			}
			(*cur).Modifies = append((*cur).Modifies, ModLoc{part, e})
		}
	case "rely":
		if *cur == nil {
			return errf("rely outside function contract")
		}
		for _, part := range splitTop(rest) {
			grows := false
			if strings.HasPrefix(part, "grows ") {
				grows = true
				part = strings.TrimSpace(strings.TrimPrefix(part, "grows "))
			}
			e, err := parseExpr(part)
			if err != nil {
				return errf("%v", err)
			}
			(*cur).Relies = append((*cur).Relies, ModLoc{part, e})
			if grows {
				if (*cur).Grows == nil {
					(*cur).Grows = map[string]bool{}
				}
				(*cur).Grows[part] = true
			}
		}
	case "sameas":
		if *cur == nil {
			return errf("sameas outside function contract")
		}
		(*cur).SameAs = canonKey(pkgPath, strings.TrimSpace(rest))
	case "invokes":
		if *cur == nil {
			return errf("invokes outside function contract")
		}
		(*cur).Invokes = strings.TrimSpace(rest)
	case "flags":
		if *cur == nil {
			return errf("flags outside function contract")
		}
		for _, f := range strings.Fields(rest) {
			if i := strings.Index(f, "="); i > 0 {
				// nopanic=C08: the no-panic obligations of this function serve that property (default C14)
				if f[:i] == "nopanic" {
					(*cur).NoPanicProp = f[i+1:]
					(*cur).Props[f[i+1:]] = true
				}
				f = f[:i]
			}
			(*cur).Flags[f] = true
		}
	case "props":
		if *cur == nil {
			return errf("props outside function contract")
		}
		for _, f := range strings.Fields(rest) {
			(*cur).Props[f] = true
		}
	case "trusted":
		if *cur == nil {
			return errf("trusted outside function contract")
		}
		(*cur).Trusted = rest
	case "loop":
		if *cur == nil {
			return errf("loop outside function contract")
		}
		if mc := reLoopComplete.FindStringSubmatch(t); mc != nil {
			// loop k: complete [tag]: the loop has no early exit: it is left only through its header (every element is visited)
			k, _ := strconv.Atoi(mc[1])
			rest = mc[2]
			takeTag()
			(*cur).Complete = append((*cur).Complete, &Clause{Kind: "complete", Prop: tagProp, Label: tagLabel, Src: "loop " + mc[1] + " visits every element: no break / return / goto leaves it early", Loop: k, File: path, Line: ln})
			if tagProp != "" {
				for _, p := range strings.Split(tagProp, ",") {
					(*cur).Props[p] = true
				}
			}
			return nil
		}
		m := reLoop.FindStringSubmatch(t)
		if m == nil {
			return errf("bad loop clause")
		}
		k, _ := strconv.Atoi(m[1])
		rest = m[2]
		takeTag()
		e, err := parseExpr(rest)
		if err != nil {
			return errf("%v", err)
		}
		(*cur).Loops[k] = append((*cur).Loops[k], &Clause{Kind: "invariant", Prop: tagProp, Label: tagLabel, Src: rest, E: e, Loop: k, File: path, Line: ln})
	case "monitor":
		// monitor <mutex>: invariant e: e holds whenever the mutex is free; it is assumed right after this function
		// acquires the mutex (Lock / RLock) and is an obligation right before it releases the write lock
		if *cur == nil {
			return errf("monitor outside function contract")
		}
		m := reMonitor.FindStringSubmatch(t)
		if m == nil {
			return errf("bad monitor clause")
		}
		me, err := parseExpr(m[1])
		if err != nil {
			return errf("%v", err)
		}
		rest = m[2]
		takeTag()
		e, err := parseExpr(rest)
		if err != nil {
			return errf("%v", err)
		}
		(*cur).Monitors = append((*cur).Monitors, &Clause{Kind: "monitor", Prop: tagProp, Label: tagLabel, Src: rest, E: e, CallName: m[1], Aux: me, File: path, Line: ln})
		if tagProp != "" {
			for _, p := range strings.Split(tagProp, ",") {
				(*cur).Props[p] = true
			}
		}
	case "chan":
		// chan <local>: invariant <expr over elem>: every value sent on the channel held by that local (by this function
		// and by the closures that capture it) satisfies the invariant; every value received from it may assume it
		if *cur == nil {
			return errf("chan outside function contract")
		}
		m := reChan.FindStringSubmatch(t)
		if m == nil {
			return errf("bad chan clause")
		}
		rest = m[2]
		takeTag()
		e, err := parseExpr(rest)
		if err != nil {
			return errf("%v", err)
		}
		(*cur).ChanInvs = append((*cur).ChanInvs, &Clause{Kind: "chaninv", Prop: tagProp, Label: tagLabel, Src: rest, E: e, CallName: m[1], File: path, Line: ln})
		if tagProp != "" {
			for _, p := range strings.Split(tagProp, ",") {
				(*cur).Props[p] = true
			}
		}
	case "call":
		if *cur == nil {
			return errf("call outside function contract")
		}
		m := reCall.FindStringSubmatch(t)
		if m == nil {
			return errf("bad call clause")
		}
		k, _ := strconv.Atoi(m[2])
		rest = m[4]
		takeTag()
		e, err := parseExpr(rest)
		if err != nil {
			return errf("%v", err)
		}
		c := &Clause{Kind: "assert", Prop: tagProp, Label: tagLabel, Src: rest, E: e, CallName: m[1], CallOrd: k, After: m[3] == "after", File: path, Line: ln}
		(*cur).Calls = append((*cur).Calls, c)
		if tagProp != "" {
			for _, p := range strings.Split(tagProp, ",") {
				(*cur).Props[p] = true
			}
		}
	case "ghost", "ghostfield":
		// ghost name(T1, T2) R
		i := strings.Index(rest, "(")
		j := strings.LastIndex(rest, ")")
		if i < 0 || j < i {
			return errf("bad ghost declaration")
		}
		g := &GhostFn{Name: strings.TrimSpace(rest[:i]), Params: splitNames(rest[i+1 : j]), Result: strings.TrimSpace(rest[j+1:]), Field: word == "ghostfield", PkgPath: pkgPath}
		if g.Result == "" {
			g.Result = "bool"
		}
		if old, dup := cs.Ghosts[g.Name]; dup {
			if fmt.Sprint(old) != fmt.Sprint(g) {
				return errf("conflicting ghost %s", g.Name)
			}
			return nil
		}
		cs.Ghosts[g.Name] = g
	case "pred":
		// pred name(x T, y T) := expr
		i := strings.Index(rest, "(")
		j := strings.Index(rest, ") :=")
		if i < 0 || j < i {
			return errf("bad pred declaration")
		}
		p := &Pred{Name: strings.TrimSpace(rest[:i]), Src: strings.TrimSpace(rest[j+4:]), PkgPath: pkgPath}
		for _, part := range strings.Split(rest[i+1:j], ",") {
			f := strings.Fields(part)
			if len(f) == 0 {
				continue
			}
			q := QVar{Name: f[0]}
			if len(f) > 1 {
				q.Type = f[1]
			}
			p.Params = append(p.Params, q)
		}
		e, err := parseExpr(p.Src)
		if err != nil {
			return errf("%v", err)
		}
		p.Body = e
		if _, dup := cs.Preds[p.Name]; dup {
			return errf("duplicate pred %s", p.Name)
		}
		cs.Preds[p.Name] = p
	case "axiom", "lemma":
		takeTag()
		i := strings.Index(rest, ":")
		if i < 0 {
			return errf("bad %s", word)
		}
		name := strings.TrimSpace(rest[:i])
		src := strings.TrimSpace(rest[i+1:])
		e, err := parseExpr(src)
		if err != nil {
			return errf("%v", err)
		}
		cs.Lemmas = append(cs.Lemmas, &Lemma{Name: name, Prop: tagProp, E: e, Src: src, Axiom: word == "axiom", File: path, Line: ln, PkgPath: pkgPath})
	case "pure":
		for _, f := range strings.Fields(rest) {
			cs.Pure = append(cs.Pure, f)
		}
	case "guarded":
		// guarded T.field by lockfield: the map in T.field is read only while T.lockfield is held (read or write) and
		// written only while it is write-held; checked at every map operation on that field in functions under contract
		f := strings.Fields(rest)
		if len(f) != 3 || f[1] != "by" || !strings.Contains(f[0], ".") {
			return errf("guarded T.field by lockfield")
		}
		i := strings.LastIndex(f[0], ".")
		cs.Guarded = append(cs.Guarded, GuardDecl{PkgPath: pkgPath, Type: f[0][:i], Field: f[0][i+1:], Lock: f[2], File: path, Line: ln})
	case "nopanicarg":
		// nopanicarg <callee> <k>: a function handed to <callee> as argument k runs where no panic is contained (e.g. the
		// handler the recovery interceptor calls while recovering): it is verified panic-free wherever such a call occurs
		f := strings.Fields(rest)
		if len(f) != 2 {
			return errf("nopanicarg <callee> <argument index>")
		}
		k := 0
		if _, err := fmt.Sscan(f[1], &k); err != nil {
			return errf("nopanicarg: bad index")
		}
		cs.NoPanicArgs = append(cs.NoPanicArgs, NoPanicArg{Callee: f[0], Arg: k, File: path, Line: ln})
	case "sink":
		for _, f := range strings.Fields(rest) {
			cs.Sinks = append(cs.Sinks, f)
		}
	case "secretencoder":
		for _, f := range strings.Fields(rest) {
			cs.Encoders = append(cs.Encoders, f)
		}
	case "mayencode":
		for _, f := range strings.Fields(rest) {
			cs.MayEncode = append(cs.MayEncode, f)
		}
	case "secret":
		for _, f := range strings.Fields(rest) {
			cs.Secrets = append(cs.Secrets, f)
		}
	case "secretfield":
		// secretfield <pkgpath>.<Type>.<Field> ...: a plain (string / []byte) field that holds the text form of a secret
		for _, f := range strings.Fields(rest) {
			cs.SecretFields = append(cs.SecretFields, f)
		}
	default:
		return errf("unknown contract line %q", t)
	}
	return nil
}

func canonKeyField(pkgPath, k string) string {
	k = strings.TrimSpace(k)
	if strings.Contains(k, "/") {
		return k
	}
	return pkgPath + "." + k
}

// splitTop splits on commas not nested in parentheses.
func splitTop(s string) []string {
	var out []string
	depth := 0
	start := 0
	for i, c := range s {
		switch c {
		case '(', '[':
			depth++
		case ')', ']':
			depth--
		case ',':
			if depth == 0 {
				out = append(out, strings.TrimSpace(s[start:i]))
				start = i + 1
			}
		}
	}
	if strings.TrimSpace(s[start:]) != "" {
		out = append(out, strings.TrimSpace(s[start:]))
	}
	return out
}
