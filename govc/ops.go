package main

import (
	"sort"
	"fmt"
	"go/token"
	"go/types"
	"strings"

	"golang.org/x/tools/go/ssa"
)

const relErr = "(/ 1.0 9007199254740992.0)" // 2^-53
const two53 = "9007199254740992"

// flRound models rounding of an exact real result to float64 (IEEE-754 error model, DESIGN §3.3).
func (st *State) flRound(exact string) string {
	f := st.fresh("fl", SReal)
	ex := st.fresh("flx", SReal)
	st.assume(eq(ex, exact))
	abs := "(ite (>= " + ex + " 0.0) " + ex + " (- " + ex + "))"
	st.assume("(and (<= (- " + ex + " (* " + abs + " " + relErr + ")) " + f + ") (<= " + f + " (+ " + ex + " (* " + abs + " " + relErr + "))))")
	st.assume("(=> (and (is_int " + ex + ") (<= (- " + two53 + ".0) " + ex + ") (<= " + ex + " " + two53 + ".0)) (= " + f + " " + ex + "))")
	return f
}

// intOrigin: a float value known to be an exact integer conversion (under a guard), or an integral constant.
func intOrigin(v *Val) (src, guard string, ok bool) {
	if v.IntSrc != "" {
		return v.IntSrc, v.IntGuard, true
	}
	t := strings.TrimSpace(v.Tm)
	neg := false
	if strings.HasPrefix(t, "(- ") && strings.HasSuffix(t, ")") {
		neg = true
		t = strings.TrimSpace(t[3 : len(t)-1])
	}
	if strings.HasSuffix(t, ".0") {
		if n, isNum := parseNum(strings.TrimSuffix(t, ".0")); isNum {
			if neg {
				n = new(bigInt).Neg(n)
			}
			return num(n), "true", true
		}
	}
	return "", "", false
}

// flArith models fl(a op b) and propagates exactness for integer-valued operands.
func (st *State) flArith(t types.Type, op string, a, b *Val) *Val {
	r := st.flRound("(" + op + " " + a.Tm + " " + b.Tm + ")")
	res := &Val{T: t, S: SReal, Tm: r}
	sa, ga, oka := intOrigin(a)
	sb, gb, okb := intOrigin(b)
	if oka && okb {
		it := st.named(SInt, "fint", "("+op+" "+sa+" "+sb+")")
		bound := "(and (<= (- " + two53 + ") " + it + ") (<= " + it + " " + two53 + "))"
		g := and(ga, gb, bound)
		st.assume(implies(g, eq(r, "(to_real "+it+")")))
		res.IntSrc, res.IntGuard = it, g
	}
	return res
}

// flDiv models fl(a/b). The exact quotient q is characterised multiplicatively (q*b = a), which the
// nonlinear engines handle far better than real division by a symbolic divisor. When both operands are
// exact conversions of integers (IntSrc under IntGuard) the Euclidean witnesses are made explicit.
func (st *State) flDiv(a, b *Val) string {
	q := st.fresh("fdivx", SReal)
	r := st.fresh("fdiv", SReal)
	nz := not(eq(b.Tm, "0.0"))
	st.assume(implies(nz, eq("(* "+q+" "+b.Tm+")", a.Tm)))
	absA := "(ite (>= " + a.Tm + " 0.0) " + a.Tm + " (- " + a.Tm + "))"
	absQ := "(ite (>= " + q + " 0.0) " + q + " (- " + q + "))"
	// |r - q| <= |q| eps   and   |r*b - a| <= |a| eps
	st.assume(implies(nz, "(and (<= (- " + q + " (* " + absQ + " " + relErr + ")) " + r + ") (<= " + r + " (+ " + q + " (* " + absQ + " " + relErr + "))))"))
	st.assume(implies(nz, "(and (<= (- " + a.Tm + " (* " + absA + " " + relErr + ")) (* " + r + " " + b.Tm + ")) (<= (* " + r + " " + b.Tm + ") (+ " + a.Tm + " (* " + absA + " " + relErr + "))))"))
	st.assume(implies(and(nz, "(is_int "+q+")", "(<= (- "+two53+".0) "+q+")", "(<= "+q+" "+two53+".0)"), eq(r, q)))
	if a.IntSrc != "" && b.IntSrc != "" {
		n := st.fresh("quo", SInt)
		f := st.fresh("rem", SInt)
		g := and(a.IntGuard, b.IntGuard, "(>= "+a.IntSrc+" 0)", "(> "+b.IntSrc+" 0)")
		st.assume(implies(g, and(eq(a.IntSrc, "(+ (* "+n+" "+b.IntSrc+") "+f+")"), "(<= 0 "+f+")", "(< "+f+" "+b.IntSrc+")", "(>= "+n+" 0)",
			eq(n, "(div "+a.IntSrc+" "+b.IntSrc+")"), implies(eq(f, "0"), eq(q, "(to_real "+n+")")))))
	}
	return r
}

// wrapNamed computes the Go result of an integer operation: a fresh constant v with
// v = raw - M*k (k fresh) and lo <= v <= hi, which is exactly raw wrapped into the type's range
// but stays linear for the solver. Constant-folds when possible.
func (st *State) wrapNamed(t types.Type, raw string) string {
	lo, hi, ok := intRange(t)
	if !ok {
		return raw
	}
	if _, isNum := parseNum(raw); isNum {
		return wrapInt(t, raw)
	}
	m := new(bigInt).Sub(hi, lo)
	m.Add(m, bigOne)
	v := st.fresh("v", SInt)
	k := st.fresh("k", SInt)
	st.assume("(and (= " + v + " (- " + raw + " (* " + m.String() + " " + k + "))) (<= " + num(lo) + " " + v + ") (<= " + v + " " + num(hi) + "))")
	return v
}

func (st *State) named(sort, hint, term string) string {
	if len(term) < 24 {
		return term
	}
	v := st.fresh(hint, sort)
	st.assume(eq(v, term))
	return v
}

func (vf *VerifyFunc) binop(st *State, fr *Frame, x *ssa.BinOp) *Val {
	a := st.get(fr, x.X)
	b := st.get(fr, x.Y)
	t := x.Type()
	switch x.Op {
	case token.EQL:
		return boolVal(st.valEq(a, b))
	case token.NEQ:
		return boolVal(not(st.valEq(a, b)))
	}
	ot := x.X.Type()
	s := sortOf(ot)
	switch s {
	case SInt:
		switch x.Op {
		case token.ADD:
			return &Val{T: t, S: SInt, Tm: st.wrapNamed(t, "(+ "+a.Tm+" "+b.Tm+")")}
		case token.SUB:
			return &Val{T: t, S: SInt, Tm: st.wrapNamed(t, "(- "+a.Tm+" "+b.Tm+")")}
		case token.MUL:
			return &Val{T: t, S: SInt, Tm: st.wrapNamed(t, "(* "+a.Tm+" "+b.Tm+")")}
		case token.QUO:
			if vf.nopanic {
				st.check("nopanic", "div-zero@"+st.pos(x), "C14", "integer division by zero", st.pos(x), not(eq(b.Tm, "0")))
			}
			return &Val{T: t, S: SInt, Tm: st.wrapNamed(t, goDiv(a.Tm, b.Tm))}
		case token.REM:
			if vf.nopanic {
				st.check("nopanic", "div-zero@"+st.pos(x), "C14", "integer division by zero", st.pos(x), not(eq(b.Tm, "0")))
			}
			return &Val{T: t, S: SInt, Tm: st.named(SInt, "rem", goRem(a.Tm, b.Tm))}
		case token.LSS:
			return boolVal("(< " + a.Tm + " " + b.Tm + ")")
		case token.LEQ:
			return boolVal("(<= " + a.Tm + " " + b.Tm + ")")
		case token.GTR:
			return boolVal("(> " + a.Tm + " " + b.Tm + ")")
		case token.GEQ:
			return boolVal("(>= " + a.Tm + " " + b.Tm + ")")
		case token.SHL:
			return &Val{T: t, S: SInt, Tm: st.wrapNamed(t, shiftTerm(a.Tm, b.Tm, true))}
		case token.SHR:
			return &Val{T: t, S: SInt, Tm: st.named(SInt, "shr", shiftTerm(a.Tm, b.Tm, false))}
		case token.AND:
			if n, ok := parseNum(b.Tm); ok && n.Sign() >= 0 {
				m := new(bigInt).Add(n, bigOne)
				if isPow2(m) {
					if lo, _, ok2 := intRange(ot); ok2 && lo.Sign() == 0 {
						return &Val{T: t, S: SInt, Tm: "(mod " + a.Tm + " " + m.String() + ")"}
					}
				}
			}
			r := &Val{T: t, S: SInt, Tm: "(uf_bitand " + a.Tm + " " + b.Tm + ")"}
			st.assume(rangeFact(t, r.Tm))
			return r
		case token.OR:
			r := &Val{T: t, S: SInt, Tm: "(uf_bitor " + a.Tm + " " + b.Tm + ")"}
			st.assume(rangeFact(t, r.Tm))
			return r
		case token.XOR:
			r := &Val{T: t, S: SInt, Tm: "(uf_bitxor " + a.Tm + " " + b.Tm + ")"}
			st.assume(rangeFact(t, r.Tm))
			return r
		case token.AND_NOT:
			r := st.freshVal(t, "andnot")
			return r
		}
	case SReal:
		switch x.Op {
		case token.ADD:
			return st.flArith(t, "+", a, b)
		case token.SUB:
			return st.flArith(t, "-", a, b)
		case token.MUL:
			return st.flArith(t, "*", a, b)
		case token.QUO:
			// division by zero yields Inf/NaN in Go: modelled as an unconstrained value
			return &Val{T: t, S: SReal, Tm: st.flDiv(a, b)}
		case token.LSS:
			return boolVal("(< " + a.Tm + " " + b.Tm + ")")
		case token.LEQ:
			return boolVal("(<= " + a.Tm + " " + b.Tm + ")")
		case token.GTR:
			return boolVal("(> " + a.Tm + " " + b.Tm + ")")
		case token.GEQ:
			return boolVal("(>= " + a.Tm + " " + b.Tm + ")")
		}
	case SBool:
		switch x.Op {
		case token.AND, token.LAND:
			return boolVal(and(a.Tm, b.Tm))
		case token.OR, token.LOR:
			return boolVal(or(a.Tm, b.Tm))
		}
	case SStr:
		switch x.Op {
		case token.ADD:
			r := &Val{T: t, S: SStr, Tm: "(str_cat " + a.Tm + " " + b.Tm + ")"}
			st.assume(eq("(str_len "+r.Tm+")", "(+ (str_len "+a.Tm+") (str_len "+b.Tm+"))"))
			return r
		case token.LSS:
			return boolVal("(str_lt " + a.Tm + " " + b.Tm + ")")
		case token.GTR:
			return boolVal("(str_lt " + b.Tm + " " + a.Tm + ")")
		case token.LEQ:
			return boolVal(not("(str_lt " + b.Tm + " " + a.Tm + ")"))
		case token.GEQ:
			return boolVal(not("(str_lt " + a.Tm + " " + b.Tm + ")"))
		}
	}
	st.note(fmt.Sprintf("binop %s on %s abstracted", x.Op, s))
	return st.freshVal(t, "binop")
}

// Go integer division truncates toward zero; SMT div is Euclidean/floor for positive divisor.
func goDiv(a, b string) string {
	if n, ok := parseNum(b); ok && n.Sign() > 0 {
		if m, ok2 := parseNum(a); ok2 {
			q := new(bigInt).Quo(m, n)
			return num(q)
		}
		return "(ite (>= " + a + " 0) (div " + a + " " + b + ") (- (div (- " + a + ") " + b + ")))"
	}
	return "(ite (>= " + a + " 0) (ite (> " + b + " 0) (div " + a + " " + b + ") (- (div " + a + " (- " + b + ")))) (ite (> " + b + " 0) (- (div (- " + a + ") " + b + ")) (div (- " + a + ") (- " + b + "))))"
}
func goRem(a, b string) string {
	return "(- " + a + " (* " + b + " " + goDiv(a, b) + "))"
}

func shiftTerm(a, b string, left bool) string {
	if n, ok := parseNum(b); ok && n.IsInt64() && n.Int64() >= 0 && n.Int64() < 128 {
		p := pow2(int(n.Int64())).String()
		if left {
			return "(* " + a + " " + p + ")"
		}
		return "(div " + a + " " + p + ")"
	}
	// ite chain over 0..64 (shift counts >= 64 give 0 for unsigned, sign fill abstracted as div)
	t := "0"
	if left {
		t = "0"
	} else {
		t = "(ite (>= " + a + " 0) 0 (- 1))"
	}
	for k := 63; k >= 0; k-- {
		p := pow2(k).String()
		var v string
		if left {
			v = "(* " + a + " " + p + ")"
		} else {
			v = "(div " + a + " " + p + ")"
		}
		t = "(ite (= " + b + " " + fmt.Sprint(k) + ") " + v + " " + t + ")"
	}
	return t
}

func (vf *VerifyFunc) unop(st *State, fr *Frame, x *ssa.UnOp) *Val {
	a := st.get(fr, x.X)
	t := x.Type()
	switch x.Op {
	case token.MUL:
		vf.derefCheck(st, a, x)
		v := st.load(a, t)
		st.loadFacts(v)
		return v
	case token.NOT:
		return boolVal(not(a.Tm))
	case token.SUB:
		if a.S == SReal {
			return &Val{T: t, S: SReal, Tm: "(- " + a.Tm + ")"}
		}
		return &Val{T: t, S: SInt, Tm: wrapInt(t, "(- "+a.Tm+")")}
	case token.XOR:
		lo, hi, ok := intRange(t)
		if ok && lo.Sign() == 0 {
			return &Val{T: t, S: SInt, Tm: "(- " + hi.String() + " " + a.Tm + ")"}
		}
		return &Val{T: t, S: SInt, Tm: "(- (- " + a.Tm + ") 1)"}
	case token.ARROW:
		vf.chanOp(st, fr, a, "recv", x)
		vf.ctxDoneRecv(st, a, "true")
		if x.CommaOk {
			tt := t.(*types.Tuple)
			rv, ok := st.freshVal(tt.At(0).Type(), "recv"), st.freshVal(tt.At(1).Type(), "recvok")
			vf.chanInvRecv(st, fr, a, rv, ok.Tm)
			return &Val{T: t, Fs: []*Val{rv, ok}}
		}
		// without the comma-ok form a closed channel yields the zero value: nothing can be assumed about it
		return st.freshVal(t, "recv")
	}
	return st.freshVal(t, "unop")
}

// loadFacts: values read from memory satisfy their type's range.
func (st *State) loadFacts(v *Val) {
	if v.S == SInt && v.T != nil {
		st.assume(rangeFact(v.T, v.Tm))
	}
	if v.S != "" {
		st.typeFacts(v)
	}
	for _, f := range v.Fs {
		st.loadFacts(f)
	}
}

func (vf *VerifyFunc) convert(st *State, v *Val, from, to types.Type, in ssa.Instruction) *Val {
	fs, ts := sortOf(from), sortOf(to)
	switch {
	case fs == SInt && ts == SInt:
		if _, ok := to.Underlying().(*types.Basic); ok {
			if _, ok2 := from.Underlying().(*types.Basic); ok2 {
				if flo, fhi, ok3 := intRange(from); ok3 {
					tlo, thi, _ := intRange(to)
					if flo.Cmp(tlo) >= 0 && fhi.Cmp(thi) <= 0 {
						return &Val{T: to, S: SInt, Tm: v.Tm} // widening: value preserved
					}
				}
				return &Val{T: to, S: SInt, Tm: st.wrapNamed(to, v.Tm)}
			}
		}
		return &Val{T: to, S: SInt, Tm: v.Tm, A: v.A}
	case fs == SInt && ts == SReal:
		g := "(and (<= (- " + two53 + ") " + v.Tm + ") (<= " + v.Tm + " " + two53 + "))"
		r := st.flRound("(to_real " + v.Tm + ")")
		st.assume(implies(g, eq(r, "(to_real "+v.Tm+")")))
		return &Val{T: to, S: SReal, Tm: r, IntSrc: v.Tm, IntGuard: g}
	case fs == SReal && ts == SInt:
		// truncation toward zero; out-of-range is implementation-defined -> unconstrained
		tr := st.named(SInt, "trunc", "(ite (>= " + v.Tm + " 0.0) (to_int " + v.Tm + ") (- (to_int (- " + v.Tm + "))))")
		lo, hi, _ := intRange(to)
		if src, g, ok := intOrigin(v); ok {
			defer func() {}()
			hint := implies(g, eq(tr, src))
			st.assume(hint)
		}
		r := st.fresh("f2i", SInt)
		st.assume(rangeFact(to, r))
		st.assume("(=> (and (<= " + num(lo) + " " + tr + ") (<= " + tr + " " + num(hi) + ")) (= " + r + " " + tr + "))")
		return &Val{T: to, S: SInt, Tm: r}
	case fs == SReal && ts == SReal:
		return &Val{T: to, S: SReal, Tm: v.Tm}
	case fs == SBytes && ts == SStr:
		r := &Val{T: to, S: SStr, Tm: "(str_of_bytes " + v.Tm + ")"}
		st.assume(eq("(str_len "+r.Tm+")", "(bytes_len "+v.Tm+")"))
		return r
	case fs == SStr && ts == SBytes:
		r := &Val{T: to, S: SBytes, Tm: "(bytes_of_str " + v.Tm + ")"}
		st.assume(eq("(bytes_len "+r.Tm+")", "(str_len "+v.Tm+")"))
		st.assume(eq("(str_of_bytes "+r.Tm+")", v.Tm))
		return r
	case fs == SInt && ts == SStr:
		return &Val{T: to, S: SStr, Tm: "(str_of_int " + v.Tm + ")"}
	case fs == ts:
		nv := *v
		nv.T = to
		return &nv
	}
	st.note("conversion " + fs + "->" + ts + " abstracted")
	return st.freshVal(to, "conv")
}

func (vf *VerifyFunc) makeInterface(st *State, v *Val, from, to types.Type) *Val {
	tag := vf.eng.typeTag(from)
	var payload string
	switch v.S {
	case SInt:
		payload = v.Tm
	case SStr, SBytes, SReal, SSlice, SBool:
		payload = "(box_" + v.S + " " + v.Tm + ")"
		st.assume(eq("(unbox_"+v.S+" "+payload+")", v.Tm))
	case SIface:
		return &Val{T: to, S: SIface, Tm: v.Tm}
	default:
		// struct by value boxed: opaque fresh payload
		payload = st.fresh("boxed", SInt)
	}
	r := &Val{T: to, S: SIface, Tm: "(mk_iface " + fmt.Sprint(tag) + " " + payload + ")", Fn: v.Fn}
	if v.S == "" {
		r.Fs = []*Val{v} // remember the boxed composite for type assertions on the same path
	}
	return r
}

func (vf *VerifyFunc) typeAssert(st *State, fr *Frame, x *ssa.TypeAssert) bool {
	v := st.get(fr, x.X)
	at := x.AssertedType
	var okT string
	var res *Val
	if _, isIface := at.Underlying().(*types.Interface); isIface {
		ok := st.fresh("implements", SBool)
		st.assume(implies(eq(v.Tm, "iface_nil"), not(ok)))
		okT = ok
		res = &Val{T: at, S: SIface, Tm: v.Tm}
	} else {
		tag := vf.eng.typeTag(at)
		okT = eq("(i_tag "+v.Tm+")", fmt.Sprint(tag))
		s := sortOf(at)
		switch s {
		case SInt:
			res = &Val{T: at, S: SInt, Tm: "(i_val " + v.Tm + ")"}
		case SStr, SBytes, SReal, SSlice, SBool:
			res = &Val{T: at, S: s, Tm: "(unbox_" + s + " (i_val " + v.Tm + "))"}
		default:
			if len(v.Fs) == 1 && v.Fs[0].T != nil && types.Identical(v.Fs[0].T, at) {
				res = v.Fs[0]
			} else {
				res = st.freshVal(at, "unboxed")
			}
		}
	}
	if x.CommaOk {
		zero := st.zeroVal(at)
		var out *Val
		if res.S != "" {
			out = &Val{T: at, S: res.S, Tm: ite(okT, res.Tm, zero.Tm)}
		} else {
			out = res
		}
		fr.regs[x] = &Val{T: x.Type(), Fs: []*Val{out, boolVal(okT)}}
		fr.idx++
		return true
	}
	if vf.nopanic {
		st.check("nopanic", "type-assert@"+st.pos(x), "C14", "type assertion may fail", st.pos(x), okT)
	} else {
		st.assume(okT)
	}
	fr.regs[x] = res
	fr.idx++
	return true
}

// ---- slices / arrays / maps ------------------------------------------

func (vf *VerifyFunc) makeSlice(st *State, t types.Type, ln, cp string) *Val {
	if sortOf(t) == SBytes {
		b := st.fresh("mkbytes", SBytes)
		st.assume(eq("(bytes_len "+b+")", ln))
		st.assume(not(eq(b, "bytes_nil")))
		return &Val{T: t, S: SBytes, Tm: b}
	}
	r := st.newRef("backing")
	es := sortOf(t.Underlying().(*types.Slice).Elem())
	if es != "" {
		key := "E:" + es
		as := heapSortFor(key, es)
		st.heapSet(key, as, store(st.heapGet(key, as), r, "((as const (Array Int "+es+")) "+zeroOfSort(es)+")"))
	}
	return &Val{T: t, S: SSlice, Tm: "(mk_slice " + r + " 0 " + ln + " " + cp + ")"}
}

func (vf *VerifyFunc) boundsCheck(st *State, idx, ln string, in ssa.Instruction) {
	if !vf.nopanic {
		return
	}
	st.check("nopanic", "index@"+st.pos(in), "C14", "index out of range", st.pos(in), "(and (<= 0 "+idx+") (< "+idx+" "+ln+"))")
}

// elemObj: address of element idx (absolute) of the backing array base, as a sub-object of that backing.
func (st *State) elemObj(base, idx string) string {
	t := "(fld_addr " + base + " (- (- 1) " + idx + "))"
	if !st.useOld {
		k := "eo:" + t
		if !st.declSet[k] {
			st.declSet[k] = true
			st.assume(and(eq("(fld_base "+t+")", base), eq("(obj_root "+t+")", "(obj_root "+base+")")))
		}
	}
	return t
}

func (vf *VerifyFunc) indexAddr(st *State, fr *Frame, x *ssa.IndexAddr) *Val {
	base := st.get(fr, x.X)
	idx := st.get(fr, x.Index)
	et := x.Type().Underlying().(*types.Pointer).Elem()
	switch bt := x.X.Type().Underlying().(type) {
	case *types.Slice:
		if base.S == SBytes {
			vf.boundsCheck(st, idx.Tm, "(bytes_len "+base.Tm+")", x)
			// element pointer into an abstract byte string: box it in a temp cell
			cell := st.newRef("bytescell")
			as := heapSortFor("C:Bytes", SBytes)
			st.heapSet("C:Bytes", as, store(st.heapGet("C:Bytes", as), cell, base.Tm))
			st.note("address of []byte element: writes through it do not alias the original slice (abstracted)")
			return &Val{T: x.Type(), S: SInt, Tm: cell, A: &Addr{Kind: "bytes", Base: cell, Idx: idx.Tm, ElemT: et}}
		}
		vf.boundsCheck(st, idx.Tm, "(s_len "+base.Tm+")", x)
		abs := "(sidx (s_off " + base.Tm + ") " + idx.Tm + ")"
		if structFields(et) != nil {
			return &Val{T: x.Type(), S: SInt, Tm: st.elemObj("(s_base "+base.Tm+")", abs)}
		}
		return &Val{T: x.Type(), S: SInt, Tm: st.elemObj("(s_base "+base.Tm+")", abs), A: &Addr{Kind: "elem", Base: "(s_base " + base.Tm + ")", Idx: abs, ElemT: et}}
	case *types.Pointer: // *[N]T
		arr := bt.Elem().Underlying().(*types.Array)
		vf.derefCheck(st, base, x)
		vf.boundsCheck(st, idx.Tm, fmt.Sprint(arr.Len()), x)
		if isByte(arr.Elem()) {
			return &Val{T: x.Type(), S: SInt, Tm: st.elemObj(base.Tm, idx.Tm), A: &Addr{Kind: "bytes", Base: base.Tm, Idx: idx.Tm, ElemT: et}}
		}
		if structFields(et) != nil {
			return &Val{T: x.Type(), S: SInt, Tm: st.elemObj(base.Tm, idx.Tm)}
		}
		return &Val{T: x.Type(), S: SInt, Tm: st.elemObj(base.Tm, idx.Tm), A: &Addr{Kind: "elem", Base: base.Tm, Idx: idx.Tm, ElemT: et}}
	}
	st.note("indexaddr abstracted")
	return st.freshVal(x.Type(), "idxaddr")
}

func (vf *VerifyFunc) indexVal(st *State, fr *Frame, x *ssa.Index) *Val {
	base := st.get(fr, x.X)
	idx := st.get(fr, x.Index)
	switch base.S {
	case SStr:
		vf.boundsCheck(st, idx.Tm, "(str_len "+base.Tm+")", x)
		r := &Val{T: x.Type(), S: SInt, Tm: "(str_at " + base.Tm + " " + idx.Tm + ")"}
		st.assume(rangeFact(x.Type(), r.Tm))
		return r
	case SBytes:
		vf.boundsCheck(st, idx.Tm, "(bytes_len "+base.Tm+")", x)
		r := &Val{T: x.Type(), S: SInt, Tm: "(bytes_at " + base.Tm + " " + idx.Tm + ")"}
		st.assume(rangeFact(x.Type(), r.Tm))
		return r
	}
	return st.freshVal(x.Type(), "index")
}


// mapHeap returns the heap keys / sorts of the three arrays modelling maps of Go type t
// (domain, values, length), keyed by the full map type so that differently typed maps never alias.
func mapHeap(t types.Type) (dk, das, vk, vas, lk, ks, vs string) {
	mt := t.Underlying().(*types.Map)
	ks, vs = sortOf(mt.Key()), sortOf(mt.Elem())
	id := typeKey(t.Underlying())
	dk, vk, lk = "MD:"+id, "MV:"+id, "ML:"+id
	das = "(Array Int (Array " + ks + " Bool))"
	vas = "(Array Int (Array " + ks + " " + vs + "))"
	return
}

func mapSorts(t types.Type) (ks, vs string) {
	mt := t.Underlying().(*types.Map)
	return sortOf(mt.Key()), sortOf(mt.Elem())
}

func (vf *VerifyFunc) lookup(st *State, fr *Frame, x *ssa.Lookup) *Val {
	m := st.get(fr, x.X)
	k := st.get(fr, x.Index)
	if m.S == SStr {
		vf.boundsCheck(st, k.Tm, "(str_len "+m.Tm+")", x)
		r := &Val{T: x.Type(), S: SInt, Tm: "(str_at " + m.Tm + " " + k.Tm + ")"}
		st.assume(rangeFact(x.Type(), r.Tm))
		return r
	}
	ks, vs := mapSorts(x.X.Type())
	mt := x.X.Type().Underlying().(*types.Map)
	if ks == "" || vs == "" {
		st.note("map with composite key/value abstracted")
		return st.freshVal(x.Type(), "lookup")
	}
	k = st.coerce(k, mt.Key())
	dk, das, vk, vas, _, _, _ := mapHeap(x.X.Type())
	dom := sel(sel(st.heapGet(dk, das), m.Tm), k.Tm)
	val := sel(sel(st.heapGet(vk, vas), m.Tm), k.Tm)
	// nil map: lookups yield zero
	present := and(not(eq(m.Tm, "0")), dom)
	v := &Val{T: mt.Elem(), S: vs, Tm: ite(present, val, zeroOfSort(vs))}
	if vs == SInt {
		st.assume(rangeFact(mt.Elem(), val))
	}
	// values stored in a map are well-formed values of their type (slice shape, string / byte lengths, non-negative refs)
	st.typeFacts(&Val{T: mt.Elem(), S: vs, Tm: val})
	if _, isSig := mt.Elem().Underlying().(*types.Signature); isSig {
		v.Fn = nil
	}
	if x.CommaOk {
		return &Val{T: x.Type(), Fs: []*Val{v, boolVal(present)}}
	}
	return v
}

func (vf *VerifyFunc) mapUpdate(st *State, fr *Frame, x *ssa.MapUpdate) {
	m := st.get(fr, x.Map)
	k := st.get(fr, x.Key)
	v := st.get(fr, x.Value)
	mt := x.Map.Type().Underlying().(*types.Map)
	ks, vs := mapSorts(x.Map.Type())
	if vf.nopanic {
		st.check("nopanic", "nil-map-write@"+st.pos(x), "C14", "assignment to entry in nil map", st.pos(x), not(eq(m.Tm, "0")))
	}
	if ks == "" || vs == "" {
		st.note("map with composite key/value abstracted")
		return
	}
	k = st.coerce(k, mt.Key())
	v = st.coerce(v, mt.Elem())
	st.mapStore(x.Map.Type(), m.Tm, k.Tm, v.Tm)
}

func (st *State) mapStore(t types.Type, m, k, v string) {
	dk, das, vk, vas, lk, _, _ := mapHeap(t)
	d := st.heapGet(dk, das)
	was := sel(sel(d, m), k)
	las := "(Array Int Int)"
	l := st.heapGet(lk, las)
	st.heapSet(lk, las, store(l, m, ite(was, sel(l, m), "(+ "+sel(l, m)+" 1)")))
	st.heapSet(dk, das, store(d, m, store(sel(d, m), k, "true")))
	vh := st.heapGet(vk, vas)
	st.heapSet(vk, vas, store(vh, m, store(sel(vh, m), k, v)))
}

func (st *State) mapDelete(t types.Type, m, k string) {
	dk, das, _, _, lk, _, _ := mapHeap(t)
	d := st.heapGet(dk, das)
	was := sel(sel(d, m), k)
	las := "(Array Int Int)"
	l := st.heapGet(lk, las)
	st.heapSet(lk, las, store(l, m, ite(was, "(- "+sel(l, m)+" 1)", sel(l, m))))
	st.heapSet(dk, das, store(d, m, store(sel(d, m), k, "false")))
}

func (vf *VerifyFunc) sliceOp(st *State, fr *Frame, x *ssa.Slice) *Val {
	base := st.get(fr, x.X)
	lo := "0"
	if x.Low != nil {
		lo = st.get(fr, x.Low).Tm
	}
	switch base.S {
	case SBytes, SStr:
		lenF := "bytes_len"
		subF := "bytes_sub"
		if base.S == SStr {
			lenF, subF = "str_len", "str_sub"
		}
		hi := "(" + lenF + " " + base.Tm + ")"
		if x.High != nil {
			hi = st.get(fr, x.High).Tm
		}
		if vf.nopanic {
			// capacity is not modelled for []byte: bound by length (conservative)
			st.check("nopanic", "slice@"+st.pos(x), "C14", "slice bounds out of range", st.pos(x), "(and (<= 0 "+lo+") (<= "+lo+" "+hi+") (<= "+hi+" ("+lenF+" "+base.Tm+")))")
		}
		if lo == "0" && x.High == nil {
			return &Val{T: x.Type(), S: base.S, Tm: base.Tm}
		}
		r := &Val{T: x.Type(), S: base.S, Tm: "(" + subF + " " + base.Tm + " " + lo + " " + hi + ")"}
		st.assume(eq("("+lenF+" "+r.Tm+")", "(- "+hi+" "+lo+")"))
		return r
	case SSlice:
		hi := "(s_len " + base.Tm + ")"
		if x.High != nil {
			hi = st.get(fr, x.High).Tm
		}
		mx := "(s_cap " + base.Tm + ")"
		if x.Max != nil {
			mx = st.get(fr, x.Max).Tm
		}
		if vf.nopanic {
			st.check("nopanic", "slice@"+st.pos(x), "C14", "slice bounds out of range", st.pos(x), "(and (<= 0 "+lo+") (<= "+lo+" "+hi+") (<= "+hi+" "+mx+") (<= "+mx+" (s_cap "+base.Tm+")))")
		}
		return &Val{T: x.Type(), S: SSlice, Tm: "(mk_slice (s_base " + base.Tm + ") " + addT("(s_off "+base.Tm+")", lo) + " " + subT(hi, lo) + " " + subT(mx, lo) + ")"}
	case SInt:
		// pointer to array
		if pt, ok := x.X.Type().Underlying().(*types.Pointer); ok {
			arr := pt.Elem().Underlying().(*types.Array)
			n := fmt.Sprint(arr.Len())
			hi := n
			if x.High != nil {
				hi = st.get(fr, x.High).Tm
			}
			if isByte(arr.Elem()) {
				h := st.heapGet("C:Bytes", heapSortFor("C:Bytes", SBytes))
				whole := sel(h, base.Tm)
				if lo == "0" && x.High == nil {
					return &Val{T: x.Type(), S: SBytes, Tm: whole}
				}
				r := &Val{T: x.Type(), S: SBytes, Tm: "(bytes_sub " + whole + " " + lo + " " + hi + ")"}
				st.assume(eq("(bytes_len "+r.Tm+")", "(- "+hi+" "+lo+")"))
				return r
			}
			return &Val{T: x.Type(), S: SSlice, Tm: "(mk_slice " + base.Tm + " " + lo + " " + subT(hi, lo) + " " + subT(n, lo) + ")"}
		}
	}
	st.note("slice op abstracted")
	return st.freshVal(x.Type(), "slice")
}

// next: iteration over maps / strings. Each call yields an arbitrary element (sound for havoc-loops).
func (vf *VerifyFunc) next(st *State, fr *Frame, x *ssa.Next) *Val {
	it := st.get(fr, x.Iter)
	tt := x.Type().(*types.Tuple)
	ok := st.fresh("next_ok", SBool)
	kv := st.freshVal(tt.At(1).Type(), "next_k")
	vv := st.freshVal(tt.At(2).Type(), "next_v")
	if !x.IsString && len(it.Fs) == 1 {
		m := it.Fs[0]
		if mt, isMap := m.T.Underlying().(*types.Map); isMap {
			ks, vs := sortOf(mt.Key()), sortOf(mt.Elem())
			if ks != "" && vs != "" && kv.S == ks {
				dk, das, vk, vas, lk, _, _ := mapHeap(m.T)
				dom := sel(sel(st.heapGet(dk, das), m.Tm), kv.Tm)
				st.assume(implies(ok, and(not(eq(m.Tm, "0")), dom)))
				if vv.S == vs {
					val := sel(sel(st.heapGet(vk, vas), m.Tm), kv.Tm)
					st.assume(implies(ok, eq(vv.Tm, val)))
				}
				// an empty map yields no element
				st.assume(implies(eq(sel(st.heapGet(lk, "(Array Int Int)"), m.Tm), "0"), not(ok)))
			}
		}
	}
	return &Val{T: x.Type(), Fs: []*Val{boolVal(ok), kv, vv}}
}

// yield: at a blocking point other goroutines run; locations named in the contract's rely clause may have changed.
func (vf *VerifyFunc) yield(st *State) {
	if vf.fc == nil || len(vf.fc.Relies) == 0 || len(st.frames) != 1 {
		return
	}
	env := vf.env
	if len(st.frames) == 1 {
		env = vf.loopEnv(st.frames[0]) // rely locations may be rooted in locals (e.g. a handler looked up first)
	}
	for _, m := range vf.fc.Relies {
		// a location rooted in a local that has no value yet names nothing
		ids := map[string]bool{}
		freeIdents(m.E, map[string]bool{}, ids)
		missing := false
		for id := range ids {
			if _, ok := env[id]; !ok {
				if _, ok2 := env["&"+id]; !ok2 && id != "all" {
					if vf.fn != nil && vf.eng.localType(vf.fn, id) != nil {
						missing = true
					}
				}
			}
		}
		if missing {
			continue
		}
		var before string
		var key, as, ref string
		if vf.fc.Grows[m.Src] {
			if c, ok := m.E.(ECall); ok {
				if g, ok2 := vf.eng.cs.Ghosts[c.Fun]; ok2 && g.Field && len(g.Params) == 2 && specSort(g.Result) == SBool && len(c.Args) == 1 {
					ev := &evaluator{st: st, vf: vf, env: env, pkgPath: vf.fc.PkgPath}
					ref = ev.toSort(ev.eval(c.Args[0]), specSort(g.Params[0]))
					key, as = "G:"+c.Fun, ghostFieldSort(g)
					before = sel(st.heapGet(key, as), ref)
				}
			}
		}
		vf.havocLoc(st, vf.fc, m, env)
		if before != "" {
			after := sel(st.heapGet(key, as), ref)
			ks := specSort(vf.eng.cs.Ghosts[m.E.(ECall).Fun].Params[1])
			st.assume("(forall ((gk " + ks + ")) (! (=> (select " + before + " gk) (select " + after + " gk)) :pattern ((select " + after + " gk))))")
		}
	}
}

func (vf *VerifyFunc) chanOp(st *State, fr *Frame, ch *Val, op string, in ssa.Instruction) {
	var sent *Val
	if s, ok := in.(*ssa.Send); ok {
		sent = st.get(fr, s.X)
	}
	// call-site style assertions on channel operations: `call send#k: assert e` / `call recv#k: assert e`
	if vf.fc != nil && len(st.frames) == 1 {
		ord := vf.eng.info(fr.fn).chanOrd[in]
		for _, c := range vf.fc.Calls {
			if c.After || c.CallName != op || c.CallOrd != ord {
				continue
			}
			vf.usedCallClauses[c] = true
			env := vf.loopEnv(fr)
			env["ch"] = ch
			if sent != nil {
				env["val"] = sent // the value being sent
			}
			for gi, t := range vf.evalGoals(st, c, env, nil) {
				st.check("assert", splitLbl(lbl(c, fmt.Sprintf("%s#%d", op, ord)), c, gi), c.Prop, c.Src, st.pos(in), t)
			}
		}
	}
	if st.heldNow == 0 || vf.fc == nil || !vf.fc.Flags["interleaved"] {
		// (with `flags interleaved` the relied-on state is taken to be protected by whatever lock this goroutine holds:
		// monitor discipline, same rule as at calls)
		vf.yield(st)
	}
	if vf.nopanic || vf.fc != nil && vf.fc.Flags["nilchan"] {
		st.check("nilchan", fmt.Sprintf("%s#%d", op, vf.eng.info(fr.fn).chanOrd[in]), "", op+" on nil channel blocks forever", st.pos(in), not(eq(ch.Tm, "0")))
	}
	if vf.fc != nil && vf.fc.Flags["nonblocking"] && len(st.frames) == 1 {
		st.check("nonblock", fmt.Sprintf("%s#%d", op, vf.eng.info(fr.fn).chanOrd[in]), vf.propsOf("C12"), "blocking channel "+op+" in a function declared nonblocking", st.pos(in), "false")
	}
}

// ctxDoneRecv: a receive from ctx.Done() that went through (under cond) means the context is done from now on
// (ghost field ctxDone, read by the contract of (context.Context).Err).
func (vf *VerifyFunc) ctxDoneRecv(st *State, ch *Val, cond string) {
	if ch.DoneOf == "" {
		return
	}
	g, ok := vf.eng.cs.Ghosts["ctxDone"]
	if !ok || !g.Field {
		return
	}
	key, as := "G:ctxDone", ghostFieldSort(g)
	old := st.heapGet(key, as)
	nw := store(old, ch.DoneOf, "true")
	if cond != "true" {
		nw = "(ite " + cond + " " + nw + " " + old + ")"
	}
	st.heapSet(key, as, nw)
}

// chanVarVal: the channel currently held by the local (or captured) variable `name`, nil when it has no value here.
func (vf *VerifyFunc) chanVarVal(st *State, fr *Frame, name string) *Val {
	ev := &evaluator{st: st, vf: vf, env: vf.loopEnv(fr), own: false}
	if vf.fc != nil {
		ev.pkgPath = vf.fc.PkgPath
	}
	v := ev.lookupIdent(name)
	if v == nil || v.S != SInt {
		return nil
	}
	if _, ok := v.T.Underlying().(*types.Chan); !ok {
		return nil
	}
	return v
}

// sameChanType: a channel of another element type cannot be the channel under invariant.
func sameChanType(a, b *Val) bool {
	ca, ok1 := a.T.Underlying().(*types.Chan)
	cb, ok2 := b.T.Underlying().(*types.Chan)
	return ok1 && ok2 && types.Identical(ca.Elem(), cb.Elem())
}

// chanInvSend: obligation `ch == <var> ==> inv[elem := v]` for every channel invariant of the function under contract.
func (vf *VerifyFunc) chanInvSend(st *State, fr *Frame, ch, v *Val, in ssa.Instruction, where string) {
	if vf.fc == nil || len(st.frames) != 1 {
		return
	}
	for _, c := range vf.fc.ChanInvs {
		cv := vf.chanVarVal(st, fr, c.CallName)
		if cv == nil || !sameChanType(cv, ch) {
			continue
		}
		env := vf.loopEnv(fr)
		env["elem"] = v
		t := vf.evalClause(st, c, env, nil)
		l := c.Label
		if l == "" {
			l = c.CallName
		}
		st.check("chaninv", l+"/"+where, c.Prop, "value sent on "+c.CallName+" satisfies: "+c.Src, st.pos(in), "(=> (= "+ch.Tm+" "+cv.Tm+") "+t+")")
	}
}

// chanInvRecv: a value received from the channel held by <var> (while it was open) satisfies the invariant.
func (vf *VerifyFunc) chanInvRecv(st *State, fr *Frame, ch, rv *Val, okTm string) {
	if vf.fc == nil || len(st.frames) != 1 {
		return
	}
	for _, c := range vf.fc.ChanInvs {
		cv := vf.chanVarVal(st, fr, c.CallName)
		if cv == nil || !sameChanType(cv, ch) {
			continue
		}
		env := vf.loopEnv(fr)
		env["elem"] = rv
		t := vf.evalClause(st, c, env, nil)
		st.assume("(=> (and (= " + ch.Tm + " " + cv.Tm + ") " + okTm + ") " + t + ")")
		vf.notes["channel invariant of "+c.CallName+" assumed at a receive (objects sent are taken not to change between send and receive)"]++
	}
}

func (vf *VerifyFunc) selectOp(st *State, fr *Frame, x *ssa.Select) *Val {
	tt := x.Type().(*types.Tuple)
	idx := st.fresh("sel_idx", SInt)
	lo := "0"
	if !x.Blocking {
		lo = "(- 1)"
	}
	st.assume("(and (<= " + lo + " " + idx + ") (< " + idx + " " + fmt.Sprint(len(x.States)) + "))")
	if x.Blocking && (st.heldNow == 0 || vf.fc == nil || !vf.fc.Flags["interleaved"]) {
		vf.yield(st)
	}
	if !x.Blocking && vf.fc != nil && vf.fc.Flags["delivers"] && len(st.frames) == 1 {
		for _, s := range x.States {
			if s.Dir == types.SendOnly {
				// a send in a select with a default branch is skipped whenever the receiver is not ready: the value is dropped
				st.check("delivery", fmt.Sprintf("select#%d", vf.eng.info(fr.fn).chanOrd[x]), "C11", "a value handed to this function for delivery may be dropped: send inside a select with a default branch", st.pos(x), "false")
			}
		}
	}
	if x.Blocking && vf.fc != nil && vf.fc.Flags["nonblocking"] && len(st.frames) == 1 {
		st.check("nonblock", fmt.Sprintf("select#%d", vf.eng.info(fr.fn).chanOrd[x]), vf.propsOf("C12"), "blocking select in a function declared nonblocking", st.pos(x), "false")
	}
	fs := []*Val{{T: tt.At(0).Type(), S: SInt, Tm: idx}, st.freshVal(tt.At(1).Type(), "sel_ok")}
	for i := 2; i < tt.Len(); i++ {
		fs = append(fs, st.freshVal(tt.At(i).Type(), "sel_recv"))
	}
	// channel invariants: sends in the select are checked, receives (when this state was chosen and the channel was open) assume
	ri := 2
	for si, s := range x.States {
		ch := st.get(fr, s.Chan)
		if s.Dir != types.SendOnly {
			vf.ctxDoneRecv(st, ch, "(= "+idx+" "+fmt.Sprint(si)+")")
		}
		if s.Dir == types.SendOnly {
			vf.chanInvSend(st, fr, ch, st.get(fr, s.Send), x, fmt.Sprintf("select#%d.%d", vf.eng.info(fr.fn).chanOrd[x], si))
			continue
		}
		if ri < len(fs) {
			vf.chanInvRecv(st, fr, ch, fs[ri], "(and (= "+idx+" "+fmt.Sprint(si)+") "+fs[1].Tm+")")
			ri++
		}
	}
	return &Val{T: x.Type(), Fs: fs}
}

func subT(a, b string) string {
	if b == "0" {
		return a
	}
	if x, ok := parseNum(a); ok {
		if y, ok2 := parseNum(b); ok2 {
			return num(new(bigInt).Sub(x, y))
		}
	}
	return "(- " + a + " " + b + ")"
}

func addT(a, b string) string {
	if b == "0" {
		return a
	}
	if a == "0" {
		return b
	}
	if x, ok := parseNum(a); ok {
		if y, ok2 := parseNum(b); ok2 {
			return num(new(bigInt).Add(x, y))
		}
	}
	return "(+ " + a + " " + b + ")"
}

func typeName(t types.Type) string {
	s := types.TypeString(t, func(p *types.Package) string { return p.Name() })
	return strings.TrimPrefix(s, "*")
}

// propsOf: the properties the function under contract is declared to serve (comma separated), def when it declares none:
// obligations that come from a flag of the contract (nonblocking, ...) count under those properties.
func (vf *VerifyFunc) propsOf(def string) string {
	if vf.fc == nil || len(vf.fc.Props) == 0 || vf.fc.Props[def] {
		return def // the property the flag was introduced for, when the function serves it
	}
	var ps []string
	for p := range vf.fc.Props {
		ps = append(ps, p)
	}
	sort.Strings(ps)
	return strings.Join(ps, ",")
}
