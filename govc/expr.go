package main

// Contract expression language: lexer + precedence-climbing parser.
//
//   e ::= e ==> e | e <==> e | e || e | e && e | e (==|!=|<|<=|>|>=) e
//       | e (+|-|*|/|%) e | !e | -e | e.f | e[e] | f(e, ...) | old(e)
//       | (forall|exists) x T, y T :: e | ident | number | "string" | true | false | nil | (e)
//       | e ? e : e   (written  ite(c, a, b))

import (
	"strconv"
	"fmt"
	"strings"
	"unicode"
)

type Expr interface{ String() string }

type (
	ENum   struct{ V string }
	EBool  struct{ V bool }
	ENil   struct{}
	EStr   struct{ V string }
	EIdent struct{ Name string }
	ESel   struct {
		X    Expr
		Name string
	}
	ECall struct {
		Fun  string
		Args []Expr
	}
	EIndex struct{ X, I Expr }
	EUnary struct {
		Op string
		X  Expr
	}
	EBinary struct {
		Op   string
		X, Y Expr
	}
	ESplit struct {
		Var    string
		Lo, Hi int
		Body   Expr
	}
	EQuant struct {
		Forall   bool
		Vars     []QVar
		Triggers []Expr
		Body     Expr
	}
)

type QVar struct{ Name, Type string }

func (e ENum) String() string   { return e.V }
func (e EBool) String() string  { return fmt.Sprint(e.V) }
func (e ENil) String() string   { return "nil" }
func (e EStr) String() string   { return fmt.Sprintf("%q", e.V) }
func (e EIdent) String() string { return e.Name }
func (e ESel) String() string   { return e.X.String() + "." + e.Name }
func (e ECall) String() string {
	var a []string
	for _, x := range e.Args {
		a = append(a, x.String())
	}
	return e.Fun + "(" + strings.Join(a, ", ") + ")"
}
func (e EIndex) String() string  { return e.X.String() + "[" + e.I.String() + "]" }
func (e EUnary) String() string  { return e.Op + e.X.String() }
func (e EBinary) String() string { return "(" + e.X.String() + " " + e.Op + " " + e.Y.String() + ")" }
func (e ESplit) String() string {
	return fmt.Sprintf("(split %s %d %d :: %s)", e.Var, e.Lo, e.Hi, e.Body.String())
}
func (e EQuant) String() string {
	q := "exists"
	if e.Forall {
		q = "forall"
	}
	var vs []string
	for _, v := range e.Vars {
		vs = append(vs, v.Name+" "+v.Type)
	}
	return "(" + q + " " + strings.Join(vs, ", ") + " :: " + e.Body.String() + ")"
}

type tok struct {
	kind string // id num str op eof
	text string
}

func lex(s string) ([]tok, error) {
	var toks []tok
	i := 0
	for i < len(s) {
		c := s[i]
		switch {
		case c == ' ' || c == '\t':
			i++
		case unicode.IsLetter(rune(c)) || c == '_':
			j := i
			for j < len(s) && (unicode.IsLetter(rune(s[j])) || unicode.IsDigit(rune(s[j])) || s[j] == '_' || s[j] == '$') {
				j++
			}
			toks = append(toks, tok{"id", s[i:j]})
			i = j
		case unicode.IsDigit(rune(c)):
			j := i
			for j < len(s) && (unicode.IsDigit(rune(s[j])) || s[j] == 'x' || s[j] == '_' || (s[j] >= 'a' && s[j] <= 'f') || (s[j] >= 'A' && s[j] <= 'F')) {
				j++
			}
			if j+1 < len(s) && s[j] == '.' && unicode.IsDigit(rune(s[j+1])) {
				j++
				for j < len(s) && unicode.IsDigit(rune(s[j])) {
					j++
				}
			}
			toks = append(toks, tok{"num", strings.ReplaceAll(s[i:j], "_", "")})
			i = j
		case c == '"':
			j := i + 1
			for j < len(s) && s[j] != '"' {
				if s[j] == '\\' {
					j++
				}
				j++
			}
			if j >= len(s) {
				return nil, fmt.Errorf("unterminated string")
			}
			lit := s[i+1 : j]
			if strings.Contains(lit, "\\") {
				u, err := strconv.Unquote("\"" + lit + "\"")
				if err != nil {
					return nil, fmt.Errorf("bad string literal %q: %v", lit, err)
				}
				lit = u
			}
			toks = append(toks, tok{"str", lit})
			i = j + 1
		default:
			ops := []string{"<==>", "==>", "::", "{", "}", "==", "!=", "<=", ">=", "&&", "||", "<<", ">>", "<", ">", "+", "-", "*", "/", "%", "!", "(", ")", "[", "]", ",", ".", "?", ":"}
			found := false
			for _, op := range ops {
				if strings.HasPrefix(s[i:], op) {
					toks = append(toks, tok{"op", op})
					i += len(op)
					found = true
					break
				}
			}
			if !found {
				return nil, fmt.Errorf("bad character %q at %d in %q", c, i, s)
			}
		}
	}
	toks = append(toks, tok{"eof", ""})
	return toks, nil
}

type parser struct {
	toks []tok
	pos  int
}

func parseExpr(s string) (Expr, error) {
	toks, err := lex(s)
	if err != nil {
		return nil, err
	}
	p := &parser{toks: toks}
	e, err := p.expr(0)
	if err != nil {
		return nil, fmt.Errorf("%v in %q", err, s)
	}
	if p.peek().kind != "eof" {
		return nil, fmt.Errorf("trailing %q in %q", p.peek().text, s)
	}
	return e, nil
}

func (p *parser) peek() tok { return p.toks[p.pos] }
func (p *parser) next() tok { t := p.toks[p.pos]; p.pos++; return t }
func (p *parser) accept(op string) bool {
	if p.peek().kind == "op" && p.peek().text == op {
		p.pos++
		return true
	}
	return false
}

var binPrec = map[string]int{
	"<==>": 1, "==>": 2, "||": 3, "&&": 4,
	"==": 5, "!=": 5, "<": 5, "<=": 5, ">": 5, ">=": 5,
	"+": 6, "-": 6, "*": 7, "/": 7, "%": 7, "<<": 7, ">>": 7,
}

func (p *parser) expr(minPrec int) (Expr, error) {
	if p.peek().kind == "id" && p.peek().text == "split" {
		p.next()
		v := p.next()
		lo := p.next()
		hi := p.next()
		if v.kind != "id" || lo.kind != "num" || hi.kind != "num" || !p.accept("::") {
			return nil, fmt.Errorf("split: expected `split k lo hi :: body`")
		}
		var l, h int
		fmt.Sscan(lo.text, &l)
		fmt.Sscan(hi.text, &h)
		body, err := p.expr(0)
		if err != nil {
			return nil, err
		}
		return ESplit{v.text, l, h, body}, nil
	}
	// quantifiers bind loosest
	if p.peek().kind == "id" && (p.peek().text == "forall" || p.peek().text == "exists") {
		q := p.next().text
		var vars []QVar
		for {
			n := p.next()
			if n.kind != "id" {
				return nil, fmt.Errorf("quantifier: expected variable name")
			}
			star := ""
			if p.accept("*") {
				star = "*"
			}
			t := p.next()
			if t.kind != "id" {
				return nil, fmt.Errorf("quantifier: expected type after %s", n.text)
			}
			tn := t.text
			for p.accept(".") {
				t2 := p.next()
				tn += "." + t2.text
			}
			vars = append(vars, QVar{n.text, star + tn})
			if !p.accept(",") {
				break
			}
		}
		var trig []Expr
		if p.accept("{") {
			for {
				te, err := p.expr(0)
				if err != nil {
					return nil, err
				}
				trig = append(trig, te)
				if p.accept("}") {
					break
				}
				if !p.accept(",") {
					return nil, fmt.Errorf("quantifier: expected , or } in trigger")
				}
			}
		}
		if !p.accept("::") {
			return nil, fmt.Errorf("quantifier: expected ::")
		}
		body, err := p.expr(0)
		if err != nil {
			return nil, err
		}
		return EQuant{q == "forall", vars, trig, body}, nil
	}
	lhs, err := p.unary()
	if err != nil {
		return nil, err
	}
	for {
		t := p.peek()
		if t.kind != "op" {
			break
		}
		prec, ok := binPrec[t.text]
		if !ok || prec < minPrec {
			break
		}
		p.next()
		nextMin := prec + 1
		if t.text == "==>" { // right assoc
			nextMin = prec
		}
		rhs, err := p.expr(nextMin)
		if err != nil {
			return nil, err
		}
		lhs = EBinary{t.text, lhs, rhs}
	}
	return lhs, nil
}

func (p *parser) unary() (Expr, error) {
	if p.accept("!") {
		x, err := p.unary()
		if err != nil {
			return nil, err
		}
		return EUnary{"!", x}, nil
	}
	if p.accept("-") {
		x, err := p.unary()
		if err != nil {
			return nil, err
		}
		return EUnary{"-", x}, nil
	}
	return p.postfix()
}

func (p *parser) postfix() (Expr, error) {
	var e Expr
	t := p.next()
	switch t.kind {
	case "num":
		e = ENum{t.text}
	case "str":
		e = EStr{t.text}
	case "id":
		switch t.text {
		case "true":
			e = EBool{true}
		case "false":
			e = EBool{false}
		case "nil":
			e = ENil{}
		default:
			e = EIdent{t.text}
		}
	case "op":
		if t.text == "(" {
			x, err := p.expr(0)
			if err != nil {
				return nil, err
			}
			if !p.accept(")") {
				return nil, fmt.Errorf("expected )")
			}
			e = x
		} else {
			return nil, fmt.Errorf("unexpected %q", t.text)
		}
	default:
		return nil, fmt.Errorf("unexpected end")
	}
	for {
		if p.accept(".") {
			n := p.next()
			if n.kind != "id" {
				return nil, fmt.Errorf("expected field name after .")
			}
			e = ESel{e, n.text}
		} else if p.accept("[") {
			i, err := p.expr(0)
			if err != nil {
				return nil, err
			}
			if !p.accept("]") {
				return nil, fmt.Errorf("expected ]")
			}
			e = EIndex{e, i}
		} else if p.peek().kind == "op" && p.peek().text == "(" {
			// call: only on identifiers / pkg.ident
			name := ""
			switch f := e.(type) {
			case EIdent:
				name = f.Name
			case ESel:
				if id, ok := f.X.(EIdent); ok {
					name = id.Name + "." + f.Name
				}
			}
			if name == "" {
				return nil, fmt.Errorf("call of non-identifier")
			}
			p.next()
			var args []Expr
			if !p.accept(")") {
				for {
					a, err := p.expr(0)
					if err != nil {
						return nil, err
					}
					args = append(args, a)
					if p.accept(")") {
						break
					}
					if !p.accept(",") {
						return nil, fmt.Errorf("expected , or ) in call")
					}
				}
			}
			e = ECall{name, args}
		} else {
			break
		}
	}
	return e, nil
}

// freeIdents collects the identifiers of e that are not bound by a quantifier / split inside e.
func freeIdents(e Expr, bound map[string]bool, out map[string]bool) {
	switch x := e.(type) {
	case EIdent:
		if !bound[x.Name] {
			out[x.Name] = true
		}
	case ESel:
		freeIdents(x.X, bound, out)
	case ECall:
		for _, a := range x.Args {
			freeIdents(a, bound, out)
		}
	case EIndex:
		freeIdents(x.X, bound, out)
		freeIdents(x.I, bound, out)
	case EUnary:
		freeIdents(x.X, bound, out)
	case EBinary:
		freeIdents(x.X, bound, out)
		freeIdents(x.Y, bound, out)
	case ESplit:
		nb := map[string]bool{x.Var: true}
		for k := range bound {
			nb[k] = true
		}
		freeIdents(x.Body, nb, out)
	case EQuant:
		nb := map[string]bool{}
		for k := range bound {
			nb[k] = true
		}
		for _, v := range x.Vars {
			nb[v.Name] = true
		}
		for _, t := range x.Triggers {
			freeIdents(t, nb, out)
		}
		freeIdents(x.Body, nb, out)
	}
}
