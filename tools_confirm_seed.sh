#!/bin/sh
# usage: tools_confirm_seed.sh <worktree> <seeddir> <pkgdir-for-demo> <demo-file> <run-pattern> "<test pkgs>"
# Confirms in a scratch worktree: patch applies+builds, listed package tests still pass, demo FAILS with patch, PASSES without.
WT=$1; SD=$2; PKG=$3; DEMO=$4; PAT=$5; TESTPKGS=$6
export GOFLAGS=-mod=mod GOPROXY=off
cd $WT || exit 9
git checkout -q -- . && git clean -fdq -e SEED_OUT -e SEED_OUT
git apply $SD/patch.diff || { echo "RESULT apply-failed"; exit 1; }
go build ./... || { echo "RESULT build-failed"; exit 1; }
if go test -vet=off -count=1 -timeout 15m $TESTPKGS > /tmp/confirm.$$.log 2>&1; then T=pass; else T=$(grep -c '^--- FAIL' /tmp/confirm.$$.log)" failing: "$(grep '^--- FAIL' /tmp/confirm.$$.log | tr '\n' ' '); fi
cp $SD/$DEMO $PKG/zz_seed_demo_test.go
if go test -vet=off -count=1 -timeout 10m -run "$PAT" ./$PKG/ > /tmp/confirm.$$.d1 2>&1; then D1=PASS; else D1=FAIL; fi
git checkout -q -- . 
if go test -vet=off -count=1 -timeout 10m -run "$PAT" ./$PKG/ > /tmp/confirm.$$.d2 2>&1; then D2=PASS; else D2=FAIL; fi
rm -f $PKG/zz_seed_demo_test.go; git clean -fdq -e SEED_OUT -e SEED_OUT
echo "RESULT seed=$SD existing_tests=[$T] demo_with_patch=$D1 demo_without_patch=$D2"
rm -f /tmp/confirm.$$.*
