#!/bin/sh
# Build govc offline with go1.26.8 + x/tools v0.50.0 from the module cache, plus bounded-check helpers.
set -e
cd "$(dirname "$0")"
mkdir -p bin out evidence
( cd govc && GOFLAGS=-mod=mod GOPROXY=off GOSUMDB=off GOTOOLCHAIN=local go1.26.8 build -o ../bin/govc . )
( cd bounded/log2 && GOFLAGS=-mod=mod GOPROXY=off GOSUMDB=off GOTOOLCHAIN=local go1.26.8 build -o ../../bin/log2check . )
