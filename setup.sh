#!/bin/sh
# Build govc offline with go1.26.8 + x/tools v0.50.0 from the module cache.
set -e
cd "$(dirname "$0")/govc"
export GOFLAGS=-mod=mod GOPROXY=off GOSUMDB=off GOTOOLCHAIN=local
mkdir -p ../bin ../out ../evidence
go1.26.8 build -o ../bin/govc .
