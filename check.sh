#!/bin/sh
# usage: check.sh <property> <quick|thorough>
cd "$(dirname "$0")"
[ -x bin/govc ] || ./setup.sh >/dev/null 2>&1 || { echo "setup failed"; exit 2; }
exec ./bin/govc check "$1" -tier "${2:-quick}"
