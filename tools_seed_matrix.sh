#!/bin/sh
# Applies every stored seeded change to /repo in turn, runs the quick check of the property it breaks (and of the
# extra properties given in seeded/<id>/also, if any), records the violations reported, and undoes the change.
# Output: out/seed_matrix.txt (one line per seed and property). Never commits anything to /repo.
cd /verif
out=out/seed_matrix.txt
: > $out
for d in seeded/*/; do
  id=$(basename $d)
  prop=${id%%-*}
  props="$prop"
  [ -f $d/also ] && props="$props $(cat $d/also)"
  if ! git -C /repo apply --check /verif/$d/patch.diff 2>/dev/null; then
    echo "$id $prop PATCH-DOES-NOT-APPLY" >> $out
    continue
  fi
  git -C /repo apply /verif/$d/patch.diff
  for p in $props; do
    res=$(./bin/govc check $p -no-evidence 2>&1)
    n=$(echo "$res" | grep -c '^VIOLATION')
    first=$(echo "$res" | grep '^VIOLATION' | grep -v 'obligation-cannot-be-generated' | head -2 | sed 's/.*obligation=\([^ ]*\).*/\1/' | tr '\n' ' ')
    anchors=$(echo "$res" | grep -c 'obligation-cannot-be-generated')
    repl=$(echo "$res" | grep '^VIOLATION' | grep -vc 'no-failing-input-found')
    echo "$id $p violations=$n replayed=$repl anchors=$anchors first=$first" >> $out
  done
  git -C /repo checkout -- .
done
git -C /repo status --short >> $out
