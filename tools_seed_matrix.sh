#!/bin/sh
# Applies every stored seeded change to a scratch worktree of /repo in turn (never to /repo itself), runs the quick
# check of the property it breaks (and of the extra properties given in seeded/<id>/also, if any) against that
# worktree, and records the violations reported.
# usage: tools_seed_matrix.sh [seed-id-prefix ...]      Output: out/seed_matrix.txt (one line per seed and property).
cd /verif
# MATRIX_ID=<tag> runs an independent instance (own scratch worktree and output file out/seed_matrix.<tag>.txt), so that
# two halves of the seed set can be run side by side.
WT=/tmp/verif_seedwt${MATRIX_ID:+.$MATRIX_ID}
OUT=/tmp/verif_seedout${MATRIX_ID:+.$MATRIX_ID}
out=out/seed_matrix${MATRIX_ID:+.$MATRIX_ID}.txt
mkdir -p out
git -C /repo worktree remove --force $WT 2>/dev/null
rm -rf $WT $OUT
git -C /repo worktree add -q --detach $WT HEAD || exit 9
sync_mirror() { (cd /verif/contracts && find . -name zz_verif_contracts.go | while read f; do mkdir -p "$WT/$(dirname "$f")"; cp "$f" "$WT/$f"; done); }
sel="$*"
{ [ -z "$sel" ] || [ -n "${MATRIX_ID:-}" ]; } && : > $out
for d in seeded/*/; do
  id=$(basename $d)
  if [ -n "$sel" ]; then ok=0; for s in $sel; do case $id in $s*) ok=1;; esac; done; [ $ok = 1 ] || continue; fi
  prop=${id%%-*}
  props="$prop"
  [ -f $d/also ] && props="$props $(cat $d/also)"
  git -C $WT checkout -q -- . ; git -C $WT clean -fdq; sync_mirror
  if ! git -C $WT apply --check /verif/$d/patch.diff 2>/dev/null; then
    echo "$id $prop PATCH-DOES-NOT-APPLY" >> $out
    continue
  fi
  git -C $WT apply /verif/$d/patch.diff
  for p in $props; do
    res=$(GOVC_OUT=$OUT GOVC_REPO=$WT ./bin/govc check $p -repo $WT -no-evidence 2>&1)
    n=$(echo "$res" | grep -c '^VIOLATION')
    first=$(echo "$res" | grep '^VIOLATION' | grep -v 'obligation-cannot-be-generated' | head -2 | sed 's/.*obligation=\([^ ]*\).*/\1/' | tr '\n' ' ')
    anchors=$(echo "$res" | grep -c 'obligation-cannot-be-generated')
    repl=$(echo "$res" | grep '^VIOLATION' | grep -vc 'no-failing-input-found')
    und=$(echo "$res" | grep -c '^UNDECIDED')
    echo "$id $p violations=$n replayed=$repl anchors=$anchors undecided=$und first=$first" >> $out
  done
done
git -C /repo worktree remove --force $WT
rm -rf $WT $OUT
git -C /repo worktree prune
