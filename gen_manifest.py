#!/usr/bin/env python3
# Regenerates MANIFEST.json from claims.json (per-property claim text) + git state of /repo.
import json, subprocess
props=[json.loads(l)['id'] for l in open('/verif/properties.jsonl')]
claims=json.load(open('/verif/claims.json'))
hooks=subprocess.run(['git','-C','/repo','log','--format=%H %s'],capture_output=True,text=True).stdout.splitlines()
hook_commits=[l.split()[0] for l in hooks if 'verif hook:' in l]
checks=[]; na=[]
for p in props:
    c=claims.get(p)
    if c and c.get('claimed'):
        checks.append({"property_id":p,"quick_cmd":"./check.sh %s quick"%p,"thorough_cmd":"./check.sh %s thorough"%p,
          "evidence_file":"/verif/evidence/%s.json"%p,"replay_cmd_template":"cat {path}","engine":"govc",
          "level_claimed":{"category":"proof","text":c['text'],"design_ref":c.get('design_ref','DESIGN.md §7 '+p)},
          "level_note":c['note'],"technique":c.get('technique',"contract-based deductive verification: contracts on the real functions (comment file in /repo), VCs generated from go/ssa by govc, discharged by z3/cvc5")})
    else:
        na.append({"property_id":p,"reason":(c or {}).get('reason',"check not built yet (work in progress)")})
m={"version":1,"setup_cmd":"./setup.sh",
 "hooks":{"guard":"verif","enable":"-tags=verif (adds comment-only contract files zz_verif_contracts.go; no executable code; govc reads the //@ lines)","baseline_off_cmd":"cd /repo && GOFLAGS=-mod=mod GOPROXY=off go test -vet=off -count=1 -timeout 25m ./...","source_commits":hook_commits,"add_only":True},
 "engines":[{"name":"govc","path":"govc/","serves_properties":[c['property_id'] for c in checks],"kind_free_text":"contract-based deductive verifier for Go written for this task: go/ssa symbolic execution between cut points (entry, loop invariants, call sites with contracts, returns) -> SMT-LIB obligations, discharged by z3 5.1.0 / cvc5 1.0 / z3 4.8.12; solver models replayed against the real code through go test -overlay"}],
 "checks":checks,"notes":"See DESIGN.md. Contracts live in /repo/**/zz_verif_contracts.go (build tag verif, comments only), mirrored under /verif/contracts. Exit 0 = all obligations discharged; 1 = VIOLATION line(s); 3 = UNDECIDED (tree does not load / function under contract vanished).","not_applicable":na}
json.dump(m,open('/verif/MANIFEST.json','w'),indent=1)
print(len(checks),'checks',len(na),'n/a')
