#!/bin/sh
# usage: tools_mkwt.sh <name> : scratch worktree of /repo HEAD under /tmp/wt/<name> with the contract comment files removed
# (hidden from git status/diff through skip-worktree) so that a sub-agent sees nothing of /verif.
set -e
WT=/tmp/wt/$1
git -C /repo worktree remove --force $WT 2>/dev/null || true
rm -rf $WT
git -C /repo worktree add -q --detach $WT HEAD
cd $WT
for f in $(git ls-files | grep zz_verif_contracts.go); do git update-index --skip-worktree $f; rm -f $f; done
git status --short | head -3
echo $WT
