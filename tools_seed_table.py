#!/usr/bin/env python3
# Builds the table of DESIGN.md section 9 from out/seed_matrix.txt (written by tools_seed_matrix.sh) and the meta.json files.
import json, os, re, sys
rows = {}
for l in open('/verif/out/seed_matrix.txt'):
    f = l.split()
    if len(f) < 3 or not re.match(r'C\d\d-\d', f[0]):
        continue
    sid, prop = f[0], f[1]
    kv = dict(x.split('=', 1) for x in f[2:] if '=' in x)
    first = l.split('first=', 1)[1].strip() if 'first=' in l else ''
    rows.setdefault(sid, []).append((prop, int(kv.get('violations', 0)), int(kv.get('replayed', 0)), first))
out = ['| seed | site of the change | detected by (first failing obligations) |', '|----|----|----|']
for sid in sorted(rows):
    d = '/verif/seeded/' + sid
    site = ''
    try:
        pd = open(d + '/patch.diff').read()
        files = re.findall(r'^\+\+\+ b/(\S+)', pd, re.M)
        funcs = re.findall(r'^@@.*@@ func (?:\([^)]*\) )?(\w+)', pd, re.M)
        site = ', '.join(dict.fromkeys(os.path.basename(x) for x in files)) + (': ' + ', '.join(dict.fromkeys(funcs)) if funcs else '')
    except Exception:
        pass
    det = []
    for prop, n, rep, first in rows[sid]:
        if n > 0:
            obs = ' ; '.join('`' + o + '`' for o in first.split()[:2])
            det.append('%s (%d%s): %s' % (prop, n, ', replayed' if rep else '', obs))
    out.append('| %s | %s | %s |' % (sid, site, '<br>'.join(det) if det else '**not detected**'))
print('\n'.join(out))
